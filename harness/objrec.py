"""Recorder for the objective-level properties C01 / C02 / C03.

A run = one solver (class API or wrapper function) on a problem drawn from a catalogue of costs,
constraints (pure and in-place, all idempotent and compatible with the box), penalties, reducers, strict
ranges (tight/clip modes) and installation times.  The recorder hands mystic WRAPPED callables and keeps
PRISTINE copies, so everything logged about a point (inside the box?  fixed by the constraints?  cost +
penalty there?) is computed by the recorder from the numbers, never taken from mystic.

Events (see specs/solver/Trace_Objective.tla):
  New       kind, rfs (ranges in force from the first iteration), cfs (constraints from the first iteration),
            randomclip (the randomising clip=False mode), members (bool: Boundary events list the members)
  Call      pid, inbox, consfix, tot          one per call of the user's cost
  Set       what                              ranges / constraints / penalty (re)installed after the run began
  Boundary  best = [pid, e, inbox, consfix, tot], members = [[pid, stored, inbox, consfix, tot, obj], ...],
            init (energy of the initial guess), fresh (no Set since the members were last evaluated)
Energies are order-preserving integer ranks (INF = 1000000, NAN = 2000000), points are interned ids.
"""
import math, random, copy
import numpy as np

INF, NAN, UNKNOWN = 1000000, 2000000, -1


def tup(x):
    return tuple(float(v) + 0.0 for v in np.asarray(x, dtype=float).ravel())


# ------------------------------------------------------------------------------------------------ catalogue
def make_cost(name, dim, rng):
    a = [rng.choice([-1.0, 0.0, 0.5, 1.0, 2.0]) for _ in range(dim)]
    c = [rng.choice([1.0, 2.0, 0.5]) for _ in range(dim)]
    if name == "sphere":
        return (lambda x: float(sum(ci * (float(xi) - ai) ** 2 for xi, ai, ci in zip(x, a, c)))), None
    if name == "abs":
        return (lambda x: float(sum(ci * abs(float(xi) - ai) for xi, ai, ci in zip(x, a, c)))), None
    if name == "plateau":
        return (lambda x: float(sum(math.floor(2 * float(xi) - ai) ** 2 for xi, ai in zip(x, a))) / 4.0), None
    if name == "vector":      # array-valued, reduced by the configured reducer
        red = rng.choice(["npsum", "pair"])
        return (lambda x: np.array([ci * (float(xi) - ai) ** 2 for xi, ai, ci in zip(x, a, c)] + [0.25])), red
    if name == "infwall_last":    # +inf wherever the LAST coordinate exceeds 1.5 (constraints on the others leave a start there)
        return (lambda x: float("inf") if float(x[-1]) > 1.5 else float(sum((float(xi) - ai) ** 2 for xi, ai in zip(x, a)))), None
    if name == "infwall":     # legitimately infinite inside the box
        return (lambda x: float("inf") if float(x[0]) > 1.5 else float(sum((float(xi) - ai) ** 2 for xi, ai in zip(x, a)))), None
    raise ValueError(name)


def reducer_of(red):
    if red == "npsum":
        return np.sum, True, (lambda v: float(np.sum(v)))
    if red == "pair":
        return (lambda p, q: p + q), False, (lambda v: float(np.sum(v)))
    return None, None, None


def make_constraint(name, dim, lo, hi, rng):
    """returns (pure function on a fresh list -> list) ; all idempotent and mapping the box into itself"""
    if name == "none":
        return None
    mid = [(l + h) / 2.0 if math.isfinite(l) and math.isfinite(h) else 0.5 for l, h in zip(lo, hi)]
    if name == "pin":
        v = mid[0]
        def f(x): x = list(x); x[0] = v; return x
    elif name == "clamp":
        l2 = [m - 0.5 for m in mid]; h2 = [m + 0.5 for m in mid]
        def f(x): return [min(max(float(xi), a), b) for xi, a, b in zip(x, l2, h2)]
    elif name == "round":
        def f(x): return [float(np.round(float(xi))) for xi in x]
    elif name == "tie":
        if dim < 2:
            return None
        def f(x): x = list(x); x[1] = x[0]; return x
    elif name == "symbolic":
        if dim < 2:
            return None
        from mystic.symbolic import generate_constraint, generate_solvers
        g = generate_constraint(generate_solvers("x1 = x0"))
        def f(x): return list(g(list(x)))
    else:
        raise ValueError(name)
    return f


def spelled(vals, spell):
    """the same numbers as a caller may legally write them: python floats (default), python ints where integral,
    an integer ndarray (only if every entry is a finite integer), a tuple; None entries (no bound) are kept"""
    vals = list(vals)
    integral = [v is not None and math.isfinite(v) and float(v).is_integer() for v in vals]
    if spell == "int":
        return [int(v) if ok else v for v, ok in zip(vals, integral)]
    if spell == "intarray":
        return np.array([int(v) for v in vals], dtype=int) if all(integral) else vals
    if spell == "tuple":        # (a tuple with None entries is refused by SetStrictRanges: it fills them in by assignment)
        return tuple(vals) if all(v is not None for v in vals) else vals
    return vals


def as_given(f, inplace, spell="float"):
    """the callable handed to mystic: pure (returns a new object) or mutating its argument in place; with an integer
    spelling a pure constraint whose result is integral returns python ints / an integer array (a rounding constraint
    written with int() or astype(int))"""
    if f is None:
        return None
    if not inplace:
        def pure(x):
            r = f([float(v) for v in x])
            if spell in ("int", "intarray") and all(float(v).is_integer() for v in r):
                return np.array([int(v) for v in r], dtype=int) if spell == "intarray" else [int(v) for v in r]
            return np.array(r) if isinstance(x, np.ndarray) else type(x)(r) if isinstance(x, (list, tuple)) else r
        return pure
    def inpl(x):
        r = f([float(v) for v in x])
        try:
            for i, v in enumerate(r):
                x[i] = v
            return x
        except TypeError:
            return r
    return inpl


def make_penalty(name, rng):
    if name == "none":
        return None
    if name == "abs":
        return lambda x: 0.5 * abs(float(x[0]) - 1.0)
    if name == "quad":
        import mystic.penalty as mp
        @mp.quadratic_inequality(lambda x: float(x[0]) - 0.75, k=4.0)
        def pen(x): return 0.0
        return pen
    raise ValueError(name)


BOXES = {
    "wide": lambda d: ([-3.0] * d, [3.0] * d),
    "unit": lambda d: ([0.0] * d, [2.0] * d),
    "degenerate": lambda d: ([1.0] + [-3.0] * (d - 1), [1.0] + [3.0] * (d - 1)),
    "onesided": lambda d: ([0.0] * d, [None] * d),
    "infinite": lambda d: ([-float("inf")] + [-2.0] * (d - 1), [float("inf")] + [2.0] * (d - 1)),
    # every parameter has ONE infinite side, written as an explicit inf (not None): still bounded on the other side
    "halfinf": lambda d: ([0.25] * d, [float("inf")] * d),
    # integer corners away from zero (a positive lower / a negative upper bound) and their fractional sub-boxes
    # fractional corners that integer rounding still maps into the box (round(-2.4) = -2, round(3.4) = 3): clipping to
    # the box and rounding do not commute there, so the bounds-coupled constraint has to iterate to a common fixed point
    "fracround": lambda d: ([-2.4] * d, [3.4] * d),
    "shifted": lambda d: ([1.0] * d, [4.0] * d),
    "negshift": lambda d: ([-4.0] * d, [-1.0] * d),
    "mixedinf": lambda d: ([(0.25 if k % 2 == 0 else -float("inf")) for k in range(d)],
                           [(float("inf") if k % 2 == 0 else 0.75) for k in range(d)]),
}


def second_box(name, d):
    """a fractional sub-box of BOXES[name] (uniform over the coordinates), or None"""
    sub = {"wide": (-2.5, 2.75), "unit": (0.5, 1.75), "shifted": (1.5, 3.75), "negshift": (-3.75, -1.5)}.get(name)
    return None if sub is None else ([sub[0]] * d, [sub[1]] * d)


# ------------------------------------------------------------------------------------------------ recorder
REGISTRY = {}       # recorder id -> ObjRun; the cost handed to mystic refers to its recorder by id, so that
                    # copies of the cost made by mystic (ensembles deep-copy their nested solver) log here too


def cost_for(rid):
    def cost(x):
        return REGISTRY[rid]._cost(x)
    return cost


class ObjRun(object):
    def __init__(self, cfg, seed=0):
        """cfg: dict(kind, dim, npop, cost, cons, inplace, pen, box, tight, clip, cons_at, box_at, pen_at, steps, x0out)"""
        import mystic.solvers as ms
        self.cfg = cfg
        self.seed = seed
        rng = random.Random(seed)
        self.rng = rng
        random.seed(seed); np.random.seed(seed % 2 ** 32)
        kind, dim = cfg["kind"], cfg["dim"]
        self.kind, self.dim = kind, dim
        self.events = []
        self.points, self.energies = {}, set()
        self.raw, self.red = make_cost(cfg["cost"], dim, rng)
        self.reducer, self.arraylike, self.reduce_val = reducer_of(self.red)
        bx = BOXES[cfg["box"]](dim) if cfg["box"] != "none" else None
        self.box_cfg = bx
        lo = [(-1e3 if v is None else v) for v in bx[0]] if bx else [-1e3] * dim
        hi = [(1e3 if v is None else v) for v in bx[1]] if bx else [1e3] * dim
        self.cons_pristine = make_constraint(cfg["cons"], dim, lo, hi, rng)
        self.pen_pristine = make_penalty(cfg["pen"], rng)
        # what is in force NOW (the recorder's own view)
        self.box = None
        self.cons = None
        self.pen = None
        self.ncalls = 0
        self.fresh = True
        self.solver = None
        self.rid = len(REGISTRY) + 1
        REGISTRY[self.rid] = self
        self.cost = cost_for(self.rid)

    # ---- interning ------------------------------------------------------------------------------
    def pid(self, x):
        t = tup(x)
        if t not in self.points:
            self.points[t] = len(self.points) + 1
        return self.points[t]

    def e(self, v):
        v = float(v)
        self.energies.add(v)
        return v

    # ---- the recorder's own evaluation of a point -------------------------------------------------
    def inbox(self, x):
        if self.box is None:
            return True
        lo, hi = self.box
        return all((l <= float(v) <= h) for v, l, h in zip(x, lo, hi))

    def consfix(self, x):
        if self.cons is None:
            return True
        return tup(self.cons(list(tup(x)))) == tup(x)

    def tot(self, x):
        v = self.raw(list(tup(x)))
        if self.red:
            v = self.reduce_val(v)
        p = self.pen(list(tup(x))) if self.pen is not None else 0.0
        return float(v) + float(p)

    def obj(self, x):
        """objective at x in the default (non-tight) range mode: constrain, then inf outside the box"""
        q = self.cons(list(tup(x))) if self.cons is not None else list(tup(x))
        if not self.inbox(q):
            return float("inf")
        return self.tot(q)

    # ---- callables handed to mystic ---------------------------------------------------------------
    def _cost(self, x):
        self.ncalls += 1
        xt = tup(x)
        v = self.raw(list(xt))
        vv = self.reduce_val(v) if self.red else v
        p = self.pen(list(xt)) if self.pen is not None else 0.0
        self.events.append({"ev": "Call", "pid": self.pid(xt), "inbox": bool(self.inbox(xt)),
                            "consfix": bool(self.consfix(xt)), "tot": self.e(float(vv) + float(p)), "x": list(xt)})
        return v

    # ---- installation -----------------------------------------------------------------------------
    def install_box(self, s, midrun, second=False):
        if self.box_cfg is None:
            return
        if second:        # the first box is REPLACED by its fractional sub-box (always written as floats)
            b2 = second_box(self.cfg["box"], self.dim)
            if b2 is None:
                return
            self.box_cfg = b2
        lo, hi = copy.deepcopy(self.box_cfg[0]), copy.deepcopy(self.box_cfg[1])
        if not second:
            lo, hi = spelled(lo, self.cfg.get("spell", "float")), spelled(hi, self.cfg.get("spell", "float"))
        kw = {}
        if self.cfg.get("tight") is not None:
            kw["tight"] = self.cfg["tight"]
        if self.cfg.get("clip") is not None:
            kw["clip"] = self.cfg["clip"]
        s.SetStrictRanges(lo, hi, **kw)
        self.box = ([(-1e3 if v is None else float(v)) for v in self.box_cfg[0]],
                    [(1e3 if v is None else float(v)) for v in self.box_cfg[1]])
        if midrun:
            self.fresh = False
            self.events.append({"ev": "Set", "what": "ranges"})

    def remove_box(self, s, how):
        """ranges switched off mid-run: SetStrictRanges(False) removes them, SetStrictRanges(None) falls back to the
        solver's default box (+-1e3); either way the box in force changes between iterations"""
        if how == "off":
            s.SetStrictRanges(False)
            self.box = None
        else:
            s.SetStrictRanges(None)
            self.box = ([-1e3] * self.dim, [1e3] * self.dim)
        self.fresh = False
        self.events.append({"ev": "Set", "what": "ranges"})

    def install_cons(self, s, midrun, kw=None):
        """install through SetConstraints, or (kw given) through the `constraints=` keyword of the next Step"""
        if self.cons_pristine is None:
            return
        f = as_given(self.cons_pristine, self.cfg.get("inplace", False), self.cfg.get("spell", "float"))
        if kw is None:
            s.SetConstraints(f)
        else:
            kw["constraints"] = f
        self.cons = self.cons_pristine
        if midrun:
            self.fresh = False
            self.events.append({"ev": "Set", "what": "cons"})

    def install_pen(self, s, midrun, kw=None):
        if self.pen_pristine is None:
            return
        if kw is None:
            s.SetPenalty(self.pen_pristine)
        else:
            kw["penalty"] = self.pen_pristine
        self.pen = self.pen_pristine
        if midrun:
            self.fresh = False
            self.events.append({"ev": "Set", "what": "pen"})

    # ---- boundary snapshot ------------------------------------------------------------------------
    def point_rec(self, x, stored=None):
        r = {"pid": self.pid(x), "inbox": bool(self.inbox(x)), "consfix": bool(self.consfix(x)),
             "tot": self.e(self.tot(x)) if (self.inbox(x)) else float("inf"), "x": list(tup(x))}
        if stored is not None:
            r["stored"] = self.e(stored)
            tight = bool(self.cfg.get("tight")) or self.cfg.get("clip") is not None
            r["obj"] = self.e(self.obj(x)) if not tight else None
        return r

    def boundary(self, members=True, best=None, beste=None, note=""):
        s = self.solver
        bx = s.bestSolution if best is None else best
        be = s.bestEnergy if beste is None else beste
        ev = {"ev": "Boundary", "note": note, "fresh": bool(self.fresh), "init": getattr(self, "init", None)}
        b = self.point_rec(bx)
        b["e"] = self.e(np.asarray(be, dtype=float).ravel()[0]) if not np.isscalar(be) else self.e(be)
        ev["best"] = b
        mem = []
        if members and s is not None and not (self.kind == "NM" and s.generations < 1):
            # (Nelder-Mead builds its simplex in generation 1; before that only vertex 0 exists)
            pop, pe = s.population, s.popEnergy
            for p, en in zip(pop, pe):
                en = float(np.asarray(en, dtype=float).ravel()[0])
                mem.append(self.point_rec(p, stored=en))
        ev["members"] = mem
        self.events.append(ev)

    # ---- the run ------------------------------------------------------------------------------------
    def run_class_api(self):
        import mystic.solvers as ms
        import mystic.termination as mt
        cfg, kind, dim = self.cfg, self.kind, self.dim
        if kind == "DE":
            s = ms.DifferentialEvolutionSolver(dim, cfg.get("npop", 4))
        elif kind == "DE2":
            s = ms.DifferentialEvolutionSolver2(dim, cfg.get("npop", 4))
        elif kind == "NM":
            s = ms.NelderMeadSimplexSolver(dim)
        else:
            s = ms.PowellDirectionalSolver(dim)
        self.solver = s
        rng = self.rng
        spread = 5.0 if cfg.get("x0out") else 1.5
        spell = cfg.get("spell", "float")
        if cfg.get("far"):          # a start far from the origin (the initial simplex / population scale with it)
            spread = 60.0
        if kind in ("DE", "DE2") and cfg.get("init") == "multinormal":
            # the other documented ways to draw a population: they know no limits, so members may start anywhere
            s.SetMultinormalInitialPoints(spelled([0.5] * dim, spell), rng.choice([None, 4.0, 9.0]))
        elif kind in ("DE", "DE2") and cfg.get("init") == "sampled":
            from mystic.math import Distribution
            s.SetSampledInitialPoints(rng.choice([None, Distribution(np.random.normal, 0.5, 2.5)]))
        elif kind in ("DE", "DE2"):
            s.SetRandomInitialPoints(spelled([-spread] * dim, spell), spelled([spread] * dim, spell))
        else:
            x0 = [rng.uniform(-spread, spread) or 0.5 for _ in range(dim)]
            if cfg.get("far"):
                x0 = [math.copysign(rng.uniform(20.0, spread), v) for v in x0]
            if cfg.get("deepinf"):      # a start deep inside the region where the 'infwall_last' objective is +inf
                x0[-1] = 40.0 + abs(x0[-1])
            if spell != "float":
                x0 = spelled([float(round(v)) or 1.0 for v in x0], spell)
            s.SetInitialPoints(x0)
        s.SetObjective(self.cost)
        if self.reducer is not None:
            s.SetReducer(self.reducer, arraylike=self.arraylike)
        s.SetEvaluationLimits(cfg.get("maxgen", 8), None)
        s.SetTermination(mt.VTR(1e-12))
        if kind in ("DE", "DE2") and cfg.get("strategy"):
            s.strategy = cfg["strategy"]
        at = {"box": cfg.get("box_at", 0), "cons": cfg.get("cons_at", 0), "pen": cfg.get("pen_at", 0)}
        rfs = cfg["box"] != "none" and at["box"] == 0 and cfg.get("box_off_at") is None and cfg.get("box2_at") in (None, 0)
        cfs = cfg["cons"] != "none" and self.cons_pristine is not None and at["cons"] == 0
        self.events.append({"ev": "New", "kind": kind, "rfs": bool(rfs), "cfs": bool(cfs),
                            "randomclip": cfg.get("clip") is False, "members": True, "cfg": cfg, "seed": self.seed})
        steps = cfg.get("steps", 6)
        for k in range(steps + 1):
            kw = {}
            via_step = cfg.get("via") == "step" and k < steps
            if at["box"] == k:
                self.install_box(s, k > 0)
            if cfg.get("box2_at") is not None and cfg["box"] != "none" and k == max(cfg["box2_at"], at["box"]) and k < steps:
                self.install_box(s, k > 0, second=True)
            if cfg.get("box_off_at") is not None and cfg["box"] != "none":
                if k == cfg["box_off_at"] and k > at["box"]:
                    self.remove_box(s, cfg.get("box_off_how", "off"))
                if k == cfg["box_off_at"] + 2 and k > at["box"] and k < steps:
                    self.install_box(s, True)          # ... and back on two steps later
            if at["cons"] == k:
                self.install_cons(s, k > 0, kw if via_step else None)
            if at["pen"] == k:
                self.install_pen(s, k > 0, kw if via_step else None)
            if k == steps:
                break
            if k == 0:
                tight = bool(cfg.get("tight")) or cfg.get("clip") is not None
                x0 = list(tup(s.population[0]))
                self.init = None if tight else self.e(self.obj(x0))
            before = self.ncalls
            msg = s.Step(**kw)
            if self.ncalls > before or k == 0:
                pass
            self.boundary(note="step%d" % k)
            # members evaluated in this step are fresh again only for solvers that re-evaluate everything;
            # keep `fresh` False after a mid-run Set: stored energies of untouched members are the old objective's
            if msg:
                break
        return self.events

    def finish_ids(self):
        """replace float energies by order-preserving ranks"""
        fin = sorted(v for v in self.energies if math.isfinite(v))
        rank = {v: i for i, v in enumerate(fin)}

        def r(v):
            if v is None:
                return UNKNOWN
            v = float(v)
            if v != v:
                return NAN
            if v == float("inf"):
                return INF
            if v == float("-inf"):
                return -INF
            return rank[v]
        out = []
        for e in self.events:
            e = copy.deepcopy(e)
            if e["ev"] == "Call":
                e["tot"] = r(e["tot"])
            elif e["ev"] == "Boundary":
                b = e["best"]
                b["e"], b["tot"] = r(b["e"]), r(b["tot"])
                e["init"] = r(e["init"])
                for m in e["members"]:
                    m["stored"], m["tot"], m["obj"] = r(m["stored"]), r(m["tot"]), r(m["obj"])
            out.append(e)
        return out
