"""C07, grown: the one-line wrappers fmin, fmin_powell, diffev, diffev2, lattice, buckshot, sparsity.

Specification: specs/solver/Wrappers.tla (+ MC_Wrappers.tla and its quick/thorough cfgs, MC_WrappersObs.tla).

design      Wrappers.tla transcribes the seven docstrings: Doc(w) is the table of documented keywords and defaults, one
            operator per wrapper (Fmin .. Sparsity) gives the class-API configuration script an argument list denotes
            (construction, initial points, SetEvaluationLimits, monitors, id, SetDistribution, SetPenalty,
            SetConstraints, SetStrictRanges(tight, clip), SetMapper, enable_signal_handler, the termination chosen from
            xtol/ftol/gtol, the settings handed to Solve, the shape of the returned value), ResLimits the limits in
            force.  TLC enumerates every argument record deviating from the all-defaults call in <= Depth keywords
            (tightrange/cliprange free once bounds are given),
            checks KeywordOrderIndependent, ExplicitDefaultIsDefault, WellFormed, OptionalIffGiven,
            DefaultsAsDocumented and the action property Locality (a keyword changes only the calls its documentation
            names), and prints every case.
            An ensemble call with step=True is judged under both readings of the named deviation DevStepIgnored (TLC
            prints both scripts); calls writing a documented default explicitly are model-checked only (design instance).
spec->code  every printed case is executed twice under the same seed (random.seed, numpy.random.seed,
            mystic.tools.random_seed) with identical recording costs: (W) the real wrapper called with exactly the
            printed keywords, (C) the printed script interpreted call by call on the class API.  Compared bit for bit:
            whether/what was raised, every evaluated point in order (with the extra arguments received, the value
            returned and whether mystic's SIGINT handler was installed at that moment), every record written to any
            Monitor (evaluation and generation monitors, in order), every callback, the returned value field by field
            (xopt, fopt, iter, funcalls, warnflag, direc / allfuncalls, allvecs) and its shape, the contents of the
            monitors handed in, the calls received by the map handed in, the SIGINT handler left behind, and the states
            of the Python and NumPy generators afterwards.
code->spec  the warning flag is not a class-API notion: the (iter, funcalls) of run (C) and the limits TLC printed are
            judged by Wrappers.WarnFlag in one batched TLC pass (MC_WrappersObs.tla); the flag the wrapper returned
            must be that value, and the limits found on the class-API solver must be the printed ones.

Nothing about the script is computed here: `interpret` maps an op name to the method of that name and a tagged value to
the catalogue object it names.  Violation keys: wrapper:<name>:<what-differs>:<keywords of the smallest failing call
contained in the failing call> (what-differs = the first differing observable in the order of ORDER, or `warnflag` /
`limits`; `kw=default` = the keyword written with its documented default).
"""
import sys, os, io, json, random, signal, time, contextlib, warnings, hashlib, shutil
import numpy as np
from harness.tlc import run_tlc, TLCError, scratch_dir
from harness import c07_support as C

WRAPPERS = ["fmin", "fmin_powell", "diffev", "diffev2", "lattice", "buckshot", "sparsity"]
MODULE = {"fmin": "mystic.scipy_optimize", "fmin_powell": "mystic.scipy_optimize",
          "diffev": "mystic.differential_evolution", "diffev2": "mystic.differential_evolution",
          "lattice": "mystic.ensemble", "buckshot": "mystic.ensemble", "sparsity": "mystic.ensemble"}

# =========================================================================================
# catalogue: what the ids of the specification's O(kind, id) values stand for
# =========================================================================================
EVALS = []        # one entry per real cost call of the current run
CALLBACKS = []    # one entry per callback
MONLOG = []       # one entry per Monitor.__call__
MAPLOG = []       # one entry per call of the catalogue map


def _handler_on():
    h = signal.getsignal(signal.SIGINT)
    return type(h).__module__.startswith("mystic")


def _record(x, extra, v):
    EVALS.append((C.canon(x), C.canon(extra), C.canon(v), _handler_on()))
    return v


def cost_bowl(x, shift=0.0):
    """2-dim: minimum (0.75, -0.5) + shift, outside the catalogue bounds; >= 1"""
    x = [float(t) for t in x]
    return _record(x, shift, 1.0 + (x[0] - 0.75 - shift) ** 2 + 2.0 * (x[1] + 0.5 - shift) ** 2 + 0.25 * x[0] * x[1])


def cost_valley(x, shift=0.0):
    """3-dim Rosenbrock valley, lifted by 1"""
    x = [float(t) - shift for t in x]
    return _record(x, shift, 1.0 + sum(4.0 * (x[i + 1] - x[i] ** 2) ** 2 + (1.0 - x[i]) ** 2 for i in range(len(x) - 1)))


def cost_plateau(x, shift=0.0):
    """2-dim: |.| plus plateaus of width 1/4 (exact ties between neighbouring points)"""
    x = [float(t) for t in x]
    return _record(x, shift, 1.0 + abs(x[0] - 0.6 - shift) + abs(x[1] + 0.4) + float(np.floor(4.0 * abs(x[0] - x[1])) / 8.0))


def cons_tie(x):
    """idempotent: the last coordinate is tied to the first, shifted by 1/8"""
    y = [float(v) for v in x]
    y[-1] = y[0] - 0.125
    return y


def pen_sum(x):
    return 0.5 * max(0.0, 0.25 - float(x[0]) - float(x[1])) ** 2 + 0.0625 * abs(float(x[0]))


def callback1(xk):
    CALLBACKS.append(C.canon(xk))


def rev_map(f, *seqs, **kwds):
    """a serial map that evaluates its work items last to first and returns the results by index"""
    items = list(zip(*seqs))
    MAPLOG.append(len(items))
    out = [None] * len(items)
    for i in reversed(range(len(items))):
        out[i] = f(*items[i])
    return out


PROBLEMS = {
    1: {"name": "bowl2", "dim": 2, "cost": cost_bowl, "x0": [0.25, 0.5], "x0box": [(-0.5, 0.5), (0.0, 0.75)],
        "bounds": [(-1.0, 0.5), (-0.25, 1.0)], "direc": [[1.0, 1.0], [0.0, 1.0]]},
    2: {"name": "valley3", "dim": 3, "cost": cost_valley, "x0": [0.5, 0.75, 0.25], "x0box": [(-0.5, 0.5), (0.0, 0.75), (0.0, 0.5)],
        "bounds": [(-1.0, 0.875), (-0.25, 0.8125), (0.0, 0.75)], "direc": [[1.0, 0.0, 1.0], [0.0, 1.0, 0.0], [0.0, 1.0, 1.0]]},
    3: {"name": "plateau2", "dim": 2, "cost": cost_plateau, "x0": [-0.25, 0.25], "x0box": [(-0.5, 0.25), (-0.25, 0.5)],
        "bounds": [(-0.75, 0.5), (-0.3125, 1.0)], "direc": [[0.0, 1.0], [1.0, 1.0]]},
}
EXTRA = (0.125,)


class Ctx(object):
    """the concrete objects of ONE run (monitors are per run: they are written to)"""
    def __init__(self, prob):
        from mystic.monitors import Monitor
        self.p = PROBLEMS[prob]
        self.monitors = {1: Monitor(), 2: Monitor()}
        self.used_map = False

    def obj(self, kind, i):
        p = self.p
        if kind == "monitor":
            from mystic.monitors import Monitor
            return Monitor() if i == 0 else self.monitors[i]
        if kind == "args":
            return () if i == 0 else EXTRA
        if kind == "bounds":
            return [tuple(b) for b in p["bounds"]]
        if kind == "x0":
            return list(p["x0"])
        if kind == "x0box":
            return [tuple(b) for b in p["x0box"]]
        if kind == "direc":
            return [list(r) for r in p["direc"]]
        if kind == "constraints":
            return cons_tie
        if kind == "penalty":
            return pen_sum
        if kind == "callback":
            return callback1
        if kind == "map":
            self.used_map = True
            return rev_map
        if kind == "dist":
            from mystic.math import Distribution
            return Distribution(np.random.normal, 0.0, 0.0625)
        raise KeyError(kind)

    def dec(self, v):
        """tagged value of the specification -> python object"""
        t = v["t"]
        if t == "none":
            return None
        if t == "int":
            return int(v["v"])
        if t == "bool":
            return bool(v["v"])
        if t == "rat":
            return float(v["n"]) / float(v["d"])
        if t == "ints":
            return tuple(int(i) for i in v["v"])
        if t == "name":
            import mystic.solvers as ms, mystic.strategy as st
            return getattr(ms, v["v"], None) or getattr(st, v["v"])
        if t == "obj":
            return self.obj(v["kind"], v["id"])
        raise KeyError(t)


# =========================================================================================
# recording
# =========================================================================================
_HOOK = [None]


def hook_monitors():
    """log every record written to a mystic Monitor that serves as GENERATION monitor (pure observation).  The role is
    attached where a monitor is installed (Set*Monitor; copies and slices made by the ensembles inherit or re-acquire
    it); records written to evaluation monitors are not logged: without `evalmon=` the wrapper's evaluation monitor is
    not observable by the caller, with it the contents of the monitor handed in are compared"""
    import mystic.monitors as mm
    from mystic.abstract_solver import AbstractSolver
    if _HOOK[0] is not None:
        return
    orig = mm.Monitor.__call__

    def __call__(self, x, y, id=None, **kwds):
        if getattr(self, "_c07_role", "step") != "eval":
            MONLOG.append((C.canon(x), C.canon(y), id))
        return orig(self, x, y, id, **kwds)
    mm.Monitor.__call__ = __call__
    sgm, sem = AbstractSolver.SetGenerationMonitor, AbstractSolver.SetEvaluationMonitor

    def SetGenerationMonitor(self, monitor, new=False):
        r = sgm(self, monitor, new)
        if isinstance(self._stepmon, mm.Monitor):
            self._stepmon._c07_role = "step"
        return r

    def SetEvaluationMonitor(self, monitor, new=False):
        r = sem(self, monitor, new)
        if isinstance(self._evalmon, mm.Monitor):
            self._evalmon._c07_role = "eval"
        return r
    SetGenerationMonitor.__doc__, SetEvaluationMonitor.__doc__ = sgm.__doc__, sem.__doc__
    AbstractSolver.SetGenerationMonitor, AbstractSolver.SetEvaluationMonitor = SetGenerationMonitor, SetEvaluationMonitor
    _HOOK[0] = (orig, sgm, sem)


def unhook_monitors():
    import mystic.monitors as mm
    from mystic.abstract_solver import AbstractSolver
    if _HOOK[0] is not None:
        mm.Monitor.__call__, AbstractSolver.SetGenerationMonitor, AbstractSolver.SetEvaluationMonitor = _HOOK[0]
        _HOOK[0] = None


def seed_all(seed):
    from mystic.tools import random_seed
    random.seed(seed)
    np.random.seed(seed % (2 ** 32))
    random_seed(seed % (2 ** 32))


def reset():
    del EVALS[:], CALLBACKS[:], MONLOG[:], MAPLOG[:]
    signal.signal(signal.SIGINT, signal.default_int_handler)


def mon_content(m):
    return (C.canon(m._x), C.canon(m._y), C.canon(list(m._id)), C.canon(list(m._info)))


def observe(ctx, case, raised, ret, shape):
    given = case["given"] if isinstance(case["given"], dict) else {}
    h = signal.getsignal(signal.SIGINT)
    obs = {"raised": raised, "evaluated-points": tuple(EVALS), "monitor-records": tuple(MONLOG), "callbacks": tuple(CALLBACKS),
           "shape": shape, "map-calls": tuple(MAPLOG),
           "sigint-after": "default" if h is signal.default_int_handler else type(h).__module__ + "." + type(h).__name__,
           "rng": C.rng_fingerprint()}
    for f, v in (ret or {}).items():
        obs["ret:" + f] = v
    if given.get("itermon", {}).get("t") == "obj":
        obs["itermon"] = mon_content(ctx.monitors[given["itermon"]["id"]])
    if given.get("evalmon", {}).get("t") == "obj":
        obs["evalmon"] = mon_content(ctx.monitors[given["evalmon"]["id"]])
    return obs


def wrapper_fn(name):
    return getattr(sys.modules[MODULE[name]], name)


def run_wrapper(case, seed):
    """(W) the real wrapper, called with exactly the keywords TLC printed"""
    import mystic.solvers  # noqa: F401  (loads the defining modules)
    ctx = Ctx(case["prob"])
    given = case["given"] if isinstance(case["given"], dict) else {}
    kw = {k: ctx.dec(v) for k, v in sorted(given.items())}
    second = {"point": ctx.obj("x0", 1), "box": ctx.obj("x0box", 1), "ndim": ctx.p["dim"]}[case["x0k"]]
    fields = next(c for c in case["script"] if c["op"] == "Return")["p"]
    reset()
    seed_all(seed)
    raised, ret, shape = None, None, None
    try:
        with contextlib.redirect_stdout(io.StringIO()), warnings.catch_warnings():
            warnings.simplefilter("ignore")
            r = wrapper_fn(case["w"])(ctx.p["cost"], second, **kw)
        if fields["tuple"]:
            shape = ("tuple", len(r)) if isinstance(r, tuple) else (type(r).__name__, None)
            ret = {f: C.canon(v) for f, v in zip(fields["fields"], r)} if isinstance(r, tuple) else {"xopt": C.canon(r)}
        else:
            shape = ("tuple", len(r)) if isinstance(r, tuple) else ("value", None)
            ret = {"xopt": C.canon(r)}
    except Exception as ex:
        raised = "%s: %s" % (type(ex).__name__, str(ex)[:160])
    return observe(ctx, case, raised, ret, shape)


def interpret(case, seed, script=None):
    """(C) the script TLC printed (`script`: the other reading TLC printed for a step=True case), executed call by call
    on the class API.  Returns (observation, facts for the warning-flag pass)"""
    import mystic.solvers as ms, mystic.termination as mt
    ctx = Ctx(case["prob"])
    dec = ctx.dec
    reset()
    seed_all(seed)
    raised, ret, shape, facts = None, None, None, None
    s = None
    try:
        with contextlib.redirect_stdout(io.StringIO()), warnings.catch_warnings():
            warnings.simplefilter("ignore")
            for call in (script or case["script"]):
                op, p = call["op"], call["p"]
                if op == "New":
                    s = getattr(ms, p["cls"])(int(p["dim"]), *[dec(v) for v in p["more"]])
                elif op == "SetInitialPoints":
                    s.SetInitialPoints(dec(p["x0"]))
                elif op == "SetRandomInitialPoints":
                    box = dec(p["box"])
                    s.SetRandomInitialPoints([b[0] for b in box], [b[1] for b in box])
                elif op == "SetNestedSolver":
                    s.SetNestedSolver(dec(p["solver"]))
                elif op == "SetEvaluationLimits":
                    s.SetEvaluationLimits(dec(p["generations"]), dec(p["evaluations"]))
                elif op == "SetEvaluationMonitor":
                    s.SetEvaluationMonitor(dec(p["monitor"]))
                elif op == "SetGenerationMonitor":
                    s.SetGenerationMonitor(dec(p["monitor"]))
                elif op == "SetId":
                    s.id = dec(p["id"])
                elif op == "SetDistribution":
                    s.SetDistribution(dec(p["dist"]))
                elif op == "SetPenalty":
                    s.SetPenalty(dec(p["penalty"]))
                elif op == "SetConstraints":
                    s.SetConstraints(dec(p["constraints"]))
                elif op == "SetStrictRanges":
                    b = dec(p["bounds"])
                    s.SetStrictRanges([float(x[0]) for x in b], [float(x[1]) for x in b], tight=dec(p["tight"]), clip=dec(p["clip"]))
                elif op == "SetMapper":
                    s.SetMapper(dec(p["map"]))
                elif op == "enable_signal_handler":
                    s.enable_signal_handler()
                elif op == "SetTermination":
                    s.SetTermination(getattr(mt, p["kind"])(**{k: dec(v) for k, v in p.items() if k != "kind"}))
                elif op == "Solve":
                    s.Solve(ctx.p["cost"], **{k: dec(v) for k, v in p.items()})
                elif op == "Return":
                    full = {"xopt": s.bestSolution, "fopt": s.bestEnergy, "iter": s.generations, "funcalls": s.evaluations,
                            "allvecs": s.solution_history}
                    if "direc" in p["fields"]:
                        full["direc"] = s._direc
                    if "allfuncalls" in p["fields"]:
                        full["allfuncalls"] = s._total_evals
                    ret = {f: C.canon(full[f]) for f in p["fields"] if f != "warnflag"}
                    shape = ("tuple", len(p["fields"])) if p["tuple"] else ("value", None)
                    facts = {"iter": int(s.generations), "funcalls": int(s.evaluations),
                             "limits": [s._maxiter, s._maxfun]}
                else:
                    raise KeyError("script op %r" % op)
    except Exception as ex:
        raised = "%s: %s" % (type(ex).__name__, str(ex)[:160])
    return observe(ctx, case, raised, ret, shape), facts


# the observables in the order in which a difference is reported
ORDER = ["raised", "evaluated-points", "monitor-records", "callbacks", "ret:xopt", "ret:fopt", "ret:iter", "ret:funcalls",
         "ret:direc", "ret:allfuncalls", "ret:allvecs", "shape", "itermon", "evalmon", "map-calls", "sigint-after", "rng"]
TRAJECTORY = ["raised", "evaluated-points", "monitor-records", "callbacks", "ret:xopt", "ret:fopt", "ret:iter", "ret:funcalls", "rng"]


def first_diff(a, b):
    n = min(len(a), len(b))
    for i in range(n):
        if a[i] != b[i]:
            return i
    return n if len(a) != len(b) else None


def compare(W, Cc):
    """[(observable, detail)] for every observable in which the wrapper run and the script run differ"""
    bad = []
    if W["raised"] or Cc["raised"]:
        if (W["raised"] or "").split(":")[0] != (Cc["raised"] or "").split(":")[0]:
            bad.append(("raised", {"wrapper": W["raised"], "script": Cc["raised"]}))
        if bool(W["raised"]) != bool(Cc["raised"]):
            return bad
    for f in ORDER[1:]:
        if f not in W and f not in Cc:
            continue
        a, b = W.get(f), Cc.get(f)
        if a != b:
            d = {"wrapper": a, "script": b}
            if isinstance(a, tuple) and isinstance(b, tuple) and f in ("evaluated-points", "monitor-records", "callbacks"):
                i = first_diff(a, b)
                d = {"first_difference_at": i, "lengths": [len(a), len(b)], "wrapper": a[i] if i < len(a) else None,
                     "script": b[i] if i < len(b) else None}
            bad.append((f.replace("ret:", ""), d))
    return bad


def compare_step(W, C1, C0):
    """an ensemble call with step=True (deviation DevStepIgnored: the as-found wrappers do not forward `step`): judged only
    by what C07 promises under BOTH readings -- same (xopt, fopt) as the script with step forwarded and as the script with
    step ignored, same multiset of evaluated points; the order of the evaluations is not compared"""
    bad = []
    kinds = [(o["raised"] or "").split(":")[0] for o in (W, C1, C0)]
    if len(set(kinds)) > 1:
        bad.append(("raised", {"wrapper": W["raised"], "script_step_forwarded": C1["raised"], "script_step_ignored": C0["raised"]}))
    if any(kinds):
        return bad
    for f in ("ret:xopt", "ret:fopt"):
        if not (W.get(f) == C1.get(f) == C0.get(f)):
            bad.append((f[4:], {"wrapper": W.get(f), "script_step_forwarded": C1.get(f), "script_step_ignored": C0.get(f)}))
    ms = [sorted(o["evaluated-points"]) for o in (W, C1, C0)]
    if not (ms[0] == ms[1] == ms[2]):
        bad.append(("evaluated-multiset", {"numbers_of_evaluations": [len(m) for m in ms],
                                           "wrapper_equals_forwarded": ms[0] == ms[1], "wrapper_equals_ignored": ms[0] == ms[2]}))
    if W.get("shape") != C1.get("shape"):
        bad.append(("shape", {"wrapper": W.get("shape"), "script": C1.get("shape")}))
    return bad


def signature(obs):
    h = hashlib.md5()
    for f in TRAJECTORY:
        h.update(repr(obs.get(f)).encode())
    return h.hexdigest()


# =========================================================================================
# worker
# =========================================================================================
def case_id(case):
    g = case["given"] if isinstance(case["given"], dict) else {}
    return (case["w"], case["prob"], case["x0k"], json.dumps(g, sort_keys=True))


def run_case(task):
    case, seed = task
    hook_monitors()
    t0 = time.time()
    W = run_wrapper(case, seed)
    Cc, facts = interpret(case, seed)
    if case.get("stepcase"):
        C0, _ = interpret(case, seed, script=case["ignored"])
        bad = compare_step(W, Cc, C0)
        facts = None        # counters / warning flag of a step=True call are not judged
    else:
        bad = compare(W, Cc)
    return {"bad": bad, "sig": signature(W), "facts": facts, "wflag": W.get("ret:warnflag"), "raised": W["raised"],
            "nevals": len(W["evaluated-points"]), "nmon": len(W["monitor-records"]), "t": time.time() - t0,
            "ret": {k[4:]: v for k, v in W.items() if k.startswith("ret:") and k not in ("ret:allvecs", "ret:direc")}}


def run_chunk(tasks):
    return [run_case(t) for t in tasks]


# =========================================================================================
# TLC
# =========================================================================================
MUST_REFUTE = [("vac_NeverThreeDeviate", "fmin", "NeverThreeDeviate"), ("vac_NeverExplicitDefault", "diffev", "NeverExplicitDefault"),
               ("vac_NeverRanges", "buckshot", "NeverRanges"), ("asis_step", "lattice", "StepIsASetting")]


def emit_cases(a, only=None, light=False):
    """run MC_Wrappers -> (cases, [(name, result, invariant TLC must refute or None)]).  The thorough tier runs the
    thorough instance (one TLC process per wrapper) AND the quick instance (other problems / kinds of second argument),
    plus the vacuity companions and the as-is witness instances (each must be refuted)"""
    jobs = [("quick", only, None)]
    if not light and not only:
        jobs.append(("design", None, ""))      # explicit documented defaults: model-checked, nothing printed / executed
    if a.tier == "thorough":
        jobs = [("thorough", nm, None) for nm in ([only] if only else WRAPPERS)] + jobs
        if not light and not only:
            jobs += MUST_REFUTE

    def one(job):
        cfg, nm, expect = job
        return job, run_tlc("solver/MC_Wrappers", cfg="MC_Wrappers_%s.cfg" % cfg, workers=1, env={"C07W": nm} if nm else None,
                            timeout=1500, heap="3g")
    if len(jobs) > 1:
        from concurrent.futures import ThreadPoolExecutor
        with ThreadPoolExecutor(min(len(jobs), max(1, a.jobs))) as ex:
            res = list(ex.map(one, jobs))
    else:
        res = [one(jobs[0])]
    cases, seen = [], set()
    for (cfg, nm, expect), r in res:
        if expect is not None:
            continue
        for p in r.printed:
            if isinstance(p, dict) and "script" in p and case_id(p) not in seen:
                seen.add(case_id(p))
                cases.append(p)
    cases.sort(key=case_id)
    return cases, [("MC_Wrappers_%s%s" % (cfg, ":" + nm if nm else ""), r, expect or None) for (cfg, nm, expect), r in res]


FLAGS = {}       # verdicts of Wrappers.WarnFlag already obtained from TLC in this process


def judge_flags(rows):
    """rows: [(iter, funcalls, limG, limE)] -> ({row: flag}, TLC result or None); every flag is decided by
    Wrappers.WarnFlag (one batched TLC pass over the rows not judged before)"""
    rows = sorted(set(rows))
    todo = [r for r in rows if r not in FLAGS]
    r = None
    if todo:
        d = scratch_dir()
        try:
            path = os.path.join(d, "obs.json")
            with open(path, "w") as f:
                json.dump([list(x) for x in todo], f)
            r = run_tlc("solver/MC_WrappersObs", cfg="MC_WrappersObs.cfg", env={"C07W_OBS": path}, workers=1, timeout=600)
        finally:
            shutil.rmtree(d, ignore_errors=True)
        fl = [p for p in r.printed if isinstance(p, dict) and "flags" in p]
        if not fl or len(fl[-1]["flags"]) != len(todo):
            raise TLCError("no flags from MC_WrappersObs:\n" + r.out[-2000:])
        FLAGS.update(zip(todo, fl[-1]["flags"]))
    return {x: FLAGS[x] for x in rows}, r


OBSERVATIONS = [
    "O1 explicit documented default: the as-found wrappers treat 'keyword present' as 'value given'. id=None raises "
    "TypeError (int(None)) in all seven wrappers; itermon=None raises AttributeError ('NoneType' object has no attribute "
    "'x') in fmin, fmin_powell, diffev, diffev2; solver=None raises TypeError('None is not a valid solver') in lattice, "
    "buckshot, sparsity; strategy=None makes diffev/diffev2 run without a mutation strategy (e.g. diffev(cost, bounds, "
    "maxiter=5, strategy=None) ends at fopt 1.83 where the call without the keyword ends at 1.02); evalmon=None installs a "
    "Null evaluation monitor instead of Monitor() (not observable by the caller). Not judged: ExplicitDefaults = FALSE in the "
    "executed instances, ExplicitDefaultIsDefault is model-checked on MC_Wrappers_design only.",
    "O2 DevStepIgnored: lattice/buckshot/sparsity document `step (bool, default=False): if True, enable Step within the "
    "ensemble` but never forward it to Solve: wrapper(step=True) evaluates the same points in the same order as "
    "wrapper(); LatticeSolver.Solve(step=True) evaluates the same multiset interleaved member by member, same result. "
    "Judged only by what C07 promises under both readings (xopt, fopt, multiset of evaluated points); TLC refutes "
    "StepIsASetting on MC_Wrappers_asis_step.",
    "O3 fmin(xtol=0): the code switches to VTRChangeOverGeneration(ftol) when xtol is falsy (`if xtol:`) although the "
    "docstring says 'Both the ftol and xtol criteria must be met'; xtol is an acceptable absolute error > 0, the value 0 is "
    "outside the premise and not enumerated.",
    "O4 diffev(map=m): documented in diffev's docstring, but DifferentialEvolutionSolver has no SetMapper: raises "
    "AttributeError; the module text reserves the map for diffev2; not enumerated.",
    "O5 `solver=`: the docstrings say 'nested Solver instance'; the wrappers themselves pass the class and a class "
    "(PowellDirectionalSolver) is what is enumerated.",
    "O6 the scipy_optimize module text says fmin_powell uses NormalizedChangeOverGeneration(ftol) (generations default 10), "
    "fmin_powell's own docstring says gtol defaults to 2 (transcribed; the code agrees with the docstring).",
]


# =========================================================================================
# the part of check_C07
# =========================================================================================
def start_seed(a, case, k=0):
    h = hashlib.md5(("%d|%s|%d|%s|%d" % (a.seed, case["w"], case["prob"], case["x0k"], k)).encode()).hexdigest()
    return int(h[:8], 16) % (2 ** 31 - 1) + 1


def blame(failing, given):
    """keywords of the smallest failing call contained in this one (its own keywords if there is none smaller)"""
    mine = set(given.items())
    best = None
    for g in failing:
        if set(g.items()) <= mine and (best is None or len(g) < len(best) or (len(g) == len(best) and sorted(g) < sorted(best))):
            best = g
    return best if best is not None else given


def label(case, g):
    """the keywords of a call with their values; a keyword written with its documented default is marked so"""
    ex = set(case.get("explicit") or [])
    return "+".join(k + ("=default" if k in ex else "=" + short(json.loads(g[k]))) for k in sorted(g)) or "no-keywords"


def part(ck, a, cases=None, tlc=None, corrupt=False, only=None, pool=None, limit=None):
    """run the wrapper cases and report into the C07 check `ck`"""
    t0 = time.time()
    if cases is None:
        cases, tlc = emit_cases(a, only=only)
    for name, r, expect in (tlc or []):
        ck.mc(r, name)
        if expect is None:
            if r.violated:
                ck.violation("spec:wrappers:" + r.violated, {"cfg": name, "tlc": r.out[-3000:]},
                             "design statement %s violated in Wrappers.tla (%s)" % (r.violated, name))
        else:
            ck.extra.setdefault("designs_tlc_must_refute", {})[name] = r.violated
            if r.violated != expect:
                ck.violation("spec:wrappers:vacuous:" + name, {"cfg": name, "violated": r.violated},
                             "%s: TLC was expected to refute %s but reported %s" % (name, expect, r.violated))
    if only:
        cases = [c for c in cases if c["w"] == only]
    if limit:
        rng = random.Random(a.seed + 17)
        keep = [c for c in cases if not c["deviating"]]
        rest = [c for c in cases if c["deviating"]]
        rng.shuffle(rest)
        cases = keep + rest[:limit]
    if corrupt:
        # falsify one value TLC printed: the generations of the default termination / limits of the first default call
        cases = [json.loads(json.dumps(c)) for c in cases]
        c0 = next(c for c in cases if not c["deviating"] and not c["explicit"] and (not only or c["w"] == only))
        for call in c0["script"]:
            if call["op"] == "SetEvaluationLimits":
                call["p"]["generations"] = {"t": "int", "v": 2}
    tasks = [(c, start_seed(a, c)) for c in cases]
    # expensive wrappers first, small chunks
    order = sorted(range(len(tasks)), key=lambda i: (tasks[i][0]["w"] != "sparsity", tasks[i][0]["w"] not in ("lattice", "buckshot")))
    chunks = []
    k = 0
    while k < len(order):
        n = 2 if tasks[order[k]][0]["w"] == "sparsity" else 12 if tasks[order[k]][0]["w"] in ("lattice", "buckshot") else 40
        chunks.append(order[k:k + n])
        k += n
    own = None
    if pool is None and a.jobs > 1 and len(tasks) > 8:
        import multiprocessing as mp
        own = pool = mp.get_context("fork").Pool(max(1, min(a.jobs, 16 if a.tier == "thorough" else 8)))
    try:
        if pool is not None:
            outs = pool.map(run_chunk, [[tasks[i] for i in ch] for ch in chunks], chunksize=1)
        else:
            outs = [run_chunk([tasks[i] for i in ch]) for ch in chunks]
    finally:
        if own is not None:
            own.close()
            own.join()
        unhook_monitors()      # (only installed in this process when the cases ran in it)
    reps = [None] * len(tasks)
    for ch, out in zip(chunks, outs):
        for i, rep in zip(ch, out):
            reps[i] = rep
    # ---- warning flags and limits: judged by the specification
    rows = []
    for (case, seed), rep in zip(tasks, reps):
        if rep["facts"] is not None:
            rows.append((rep["facts"]["iter"], rep["facts"]["funcalls"], case["lim"][0], case["lim"][1]))
    flags, r_obs = judge_flags(rows)
    if r_obs is not None:
        ck.mc(r_obs, "MC_WrappersObs")
    for (case, seed), rep in zip(tasks, reps):
        f = rep["facts"]
        if f is None or rep["raised"]:
            continue
        if [f["limits"][0], f["limits"][1]] != list(case["lim"]):
            rep["bad"].append(("limits", {"script_solver_limits": f["limits"], "specification": case["lim"]}))
        want = flags[(f["iter"], f["funcalls"], case["lim"][0], case["lim"][1])]
        if rep["wflag"] is not None and rep["wflag"] != want:
            rep["bad"].append(("warnflag", {"wrapper": rep["wflag"], "specification": want, "iter": f["iter"],
                                            "funcalls": f["funcalls"], "limits": case["lim"]}))
    # ---- verdicts
    base = {}
    for (case, seed), rep in zip(tasks, reps):
        if not case["deviating"] and not case["explicit"]:
            base[(case["w"], case["prob"], case["x0k"])] = rep["sig"]
    failing = {}
    for (case, seed), rep in zip(tasks, reps):
        if rep["bad"]:
            g = case["given"] if isinstance(case["given"], dict) else {}
            failing.setdefault((case["w"], rep["bad"][0][0]), []).append({k: json.dumps(v, sort_keys=True) for k, v in g.items()})
    stats = {}
    nbad = 0
    for (case, seed), rep in zip(tasks, reps):
        g = case["given"] if isinstance(case["given"], dict) else {}
        st = stats.setdefault(case["w"], {"cases": 0, "nontrivial": 0, "both_raise": 0, "wall_s": 0.0})
        st["cases"] += 1
        st["wall_s"] = round(st["wall_s"] + rep["t"], 2)
        nontrivial = rep["sig"] != base.get((case["w"], case["prob"], case["x0k"])) and not rep["raised"]
        st["nontrivial"] += int(nontrivial)
        st["both_raise"] += int(bool(rep["raised"]) and not rep["bad"])
        ck.case(nontrivial=nontrivial, key=("wrapper",) + case_id(case))
        ck.trace(2)
        if rep["bad"]:
            nbad += 1
            what = rep["bad"][0][0]
            gs = {k: json.dumps(v, sort_keys=True) for k, v in g.items()}
            b = blame(failing[(case["w"], what)], gs)
            ck.violation("wrapper:%s:%s:%s" % (case["w"], what, label(case, b)),
                         {"wrapper": case["w"], "problem": PROBLEMS[case["prob"]]["name"], "second_argument": case["x0k"],
                          "keywords": g, "seed": seed, "script": case["script"], "limits": case["lim"],
                          "differences": {k: v for k, v in rep["bad"]}},
                         "%s(%s, %s%s) under seed %d and the class-API script Wrappers.tla says it denotes differ in: %s" % (
                             case["w"], PROBLEMS[case["prob"]]["name"], case["x0k"],
                             "".join(", %s=%s" % (k, short(v)) for k, v in sorted(g.items())), seed,
                             ", ".join(k for k, v in rep["bad"])))
        elif nontrivial and len(g) >= 2 and case["w"] in ("fmin_powell", "diffev2", "lattice"):
            ck.sample({"wrapper_call": {"wrapper": case["w"], "problem": PROBLEMS[case["prob"]]["name"], "keywords": g,
                                        "denoted_script": [c["op"] for c in case["script"]], "seed": seed,
                                        "evaluations_compared": rep["nevals"], "monitor_records_compared": rep["nmon"],
                                        "returned": rep["ret"]}}, limit=8)
    ck.rule = (ck.rule or "") + (
        "; (iv) a wrapper call (one of the 7 one-line wrappers x catalogue problem x kind of second argument x keywords "
        "written, as enumerated by TLC from Wrappers.tla) executed on the real wrapper and, as the class-API script the "
        "specification says it denotes, on the real solver classes under the same seed; compared bit for bit (evaluated "
        "points, generation-monitor records, callbacks, result fields, shape, monitors handed in, generator states), the "
        "warning flag judged by Wrappers.WarnFlag. non-trivial = the call's trajectory differs from the all-defaults call's")
    ck.extra["wrapper_cases"] = stats
    ck.extra["wrapper_step_cases_judged_under_both_readings"] = sum(1 for c, _ in tasks if c.get("stepcase"))
    ck.extra["observations"] = list(ck.extra.get("observations") or []) + OBSERVATIONS
    ck.extra["wrapper_cases_failing"] = nbad
    ck.extra["wrapper_wall_s"] = round(time.time() - t0, 1)
    ck.assumptions = list(ck.assumptions or []) + [
        "wrappers: the catalogue objects a case names (cost, start point / start box inside the bounds, bounds that exclude "
        "the unconstrained minimum, constraint, penalty, callback, reversed serial map, normal Distribution, direction set) "
        "are the harness's; one seed per (wrapper, problem, kind of second argument); non-trivial = the wrapper run's "
        "trajectory (evaluated points, monitor records, callbacks, result, generator state) differs from the all-defaults "
        "call's under the same seed",
        "wrappers: where the docstrings are silent on the ORDER of the denoted calls the specification follows the "
        "implementation (initial points first for fmin/fmin_powell, after the ranges for diffev/diffev2); diffev(map=..) is "
        "not enumerated (the class has no SetMapper); configured solver instances as `solver=` are not enumerated",
        "wrappers: an ensemble call with step=True (deviation DevStepIgnored) is judged only by (xopt, fopt) against the script "
        "with step forwarded AND with step ignored and by the multiset of evaluated points; a keyword written with its "
        "documented default and fmin(xtol=0) are not executed (observations O1, O3)",
        "wrappers: runs in which wrapper and script raise the same exception type (cliprange with tightrange=False: "
        "ValueError by SetStrictRanges' documentation) count as agreeing",
        "wrappers: allvecs is compared with solver.solution_history, direc with solver._direc, allfuncalls with "
        "solver._total_evals; limits in force are read from solver._maxiter/_maxfun after the script's Solve"]
    return nbad


def short(v):
    t = v.get("t")
    if t == "none":
        return "None"
    if t in ("int", "bool", "name"):
        return str(v["v"])
    if t == "rat":
        return "%s/%s" % (v["n"], v["d"])
    if t == "ints":
        return str(tuple(v["v"]))
    return "%s#%s" % (v.get("kind"), v.get("id"))


# =========================================================================================
# self-test: in-memory mutants of the wrappers' source (never written to /repo), one falsified TLC value
# =========================================================================================
def mutants():
    import mystic.scipy_optimize as so, mystic.differential_evolution as de, mystic.ensemble as en
    from harness.srcpatch import patch
    cons = "    if 'constraints' in kwds:\n        solver.SetConstraints(kwds['constraints'])\n"
    pen = "    if 'penalty' in kwds:\n        solver.SetPenalty(kwds['penalty'])\n"
    return [
        ("fmin forgets constraints=", "fmin", lambda: patch(so, "fmin", cons, "    pass\n")),
        ("fmin builds its termination from (ftol, ftol)", "fmin",
         lambda: patch(so, "fmin", "termination = CRT(xtol,ftol)", "termination = CRT(ftol,ftol)")),
        ("fmin reports the iteration limit with > instead of >=", "fmin",
         lambda: patch(so, "fmin", "elif iterations >= solver._maxiter:", "elif iterations > solver._maxiter:")),
        ("fmin returns funcalls and iter in each other's place", "fmin",
         lambda: patch(so, "fmin", "retlist = x, fval, iterations, fcalls, warnflag", "retlist = x, fval, fcalls, iterations, warnflag")),
        ("fmin_powell passes maxfun as maxiter", "fmin_powell",
         lambda: patch(so, "fmin_powell", "solver.SetEvaluationLimits(maxiter,maxfun)", "solver.SetEvaluationLimits(maxfun,maxfun)")),
        ("fmin_powell: default gtol 3 instead of the documented 2", "fmin_powell",
         lambda: patch(so, "fmin_powell", "gtol = 2 # termination", "gtol = 3 # termination")),
        ("diffev swaps tightrange and cliprange", "diffev",
         lambda: patch(de, "diffev", "solver.SetStrictRanges(minb,maxb,tight=tight,clip=clip)",
                       "solver.SetStrictRanges(minb,maxb,tight=clip,clip=tight)")),
        ("diffev ignores npop", "diffev",
         lambda: patch(de, "diffev", "solver = DifferentialEvolutionSolver(ND,npop)", "solver = DifferentialEvolutionSolver(ND,4)")),
        ("diffev turns a start box given as x0 into strict ranges", "diffev",
         lambda: patch(de, "diffev", "        solver.SetRandomInitialPoints(minb,maxb)\n",
                       "        solver.SetRandomInitialPoints(minb,maxb)\n        solver.SetStrictRanges(minb,maxb)\n")),
        ("diffev2: default strategy Rand1Bin instead of Best1Bin", "diffev2",
         lambda: patch(de, "diffev", "if 'strategy' in kwds else Best1Bin",
                       "if 'strategy' in kwds else __import__('mystic.strategy').strategy.Rand1Bin")),
        ("lattice drops the penalty", "lattice", lambda: patch(en, "lattice", pen, "    pass\n")),
        ("buckshot: default gtol 9 instead of the documented 10", "buckshot",
         lambda: patch(en, "buckshot", "gtol = 10 # termination", "gtol = 9 # termination")),
        ("buckshot ignores map=", "buckshot", lambda: patch(en, "buckshot", "if _map: solver.SetMapper(_map)", "pass")),
    ]


def selftest(a):
    """returns the number of mutants MISSED; prints one SELFTEST line per mutant"""
    import types
    from harness.core import Check
    a2 = types.SimpleNamespace(tier="quick", seed=a.seed, jobs=min(a.jobs, 8))
    cases, tlc = emit_cases(a2)

    def attempt(only, corrupt=False):
        ck = Check("C07", "model_checking", "quick", a.seed)
        ck.dry = True
        ck.outdir = os.path.join(scratch_dir(), "out")
        buf = io.StringIO()
        try:
            with contextlib.redirect_stdout(buf):
                part(ck, a2, cases=cases, tlc=[], corrupt=corrupt, only=only)
        finally:
            shutil.rmtree(os.path.dirname(ck.outdir), ignore_errors=True)
        return set(ck.viol_keys)
    missed = 0
    base = {w: attempt(w) for w in sorted(set(m[1] for m in mutants()))}
    print("SELFTEST wrappers baseline (unchanged tree): %d violation classes %s" % (
        sum(len(v) for v in base.values()), sorted(k for v in base.values() for k in v)[:40]))
    for name, w, mk in mutants():
        undo = mk()
        try:
            new = attempt(w) - base[w]
        finally:
            undo()
        caught = any(k.startswith("wrapper:%s:" % w) for k in new)
        missed += 0 if caught else 1
        print("SELFTEST wrapper mutant, %s: %s   [%s]" % (name, "caught" if caught else "MISSED", "; ".join(sorted(new))[:300]))
        sys.stdout.flush()
    new = attempt("fmin_powell", corrupt=True) - base["fmin_powell"]
    caught = any(k.startswith("wrapper:fmin_powell:") for k in new)
    missed += 0 if caught else 1
    print("SELFTEST wrappers, falsified TLC value (generation limit of the denoted script): %s   [%s]" % (
        "caught" if caught else "MISSED", "; ".join(sorted(new))[:300]))
    return missed


if __name__ == "__main__":
    from harness.core import tier_seed, assert_repo, main_guard, Check

    def main():
        a = tier_seed()
        assert_repo()
        if a.selftest:
            return 1 if selftest(a) else 0
        ck = Check("C07", "model_checking", a.tier, a.seed)
        ck.dry = True
        ck.outdir = os.path.join(scratch_dir(), "out")
        try:
            part(ck, a)
            print(json.dumps(ck.extra, indent=1))
            return ck.finish()
        finally:
            shutil.rmtree(os.path.dirname(ck.outdir), ignore_errors=True)
    main_guard(main)
