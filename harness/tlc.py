"""Start TLC with a tuned JVM, parse its output.

Everything TLC-related goes through `run_tlc`:
  * the spec directory is *copied* nowhere: TLC is started with cwd = the spec's directory and a
    private `-metadir` under /dev/shm (removed afterwards), so nothing is left behind;
  * `env` entries become IOEnv.* values inside the spec (input/output file names, seeds);
  * the result carries the numbers the evidence files need (states generated = transitions taken,
    distinct states), whether an invariant/property/assumption was violated, and the raw output.
"""
import os, re, shutil, subprocess, tempfile, time, json

JAR = "/opt/veriftools/tla/tla2tools.jar"
DEPS = "/opt/veriftools/tla/CommunityModules-deps.jar"
SPECS = os.path.join(os.path.dirname(os.path.dirname(os.path.abspath(__file__))), "specs")
LIBDIR = os.path.join(SPECS, "lib")


class TLCError(Exception):
    """machinery failure (TLC crashed, parse error, timeout) -- exit code 2 territory"""


class TLCResult(dict):
    __getattr__ = dict.get


def _scratch():
    base = "/dev/shm" if os.path.isdir("/dev/shm") and os.access("/dev/shm", os.W_OK) else tempfile.gettempdir()
    return tempfile.mkdtemp(prefix="verif_tlc_", dir=base)


def run_tlc(module, cfg=None, specdir=None, workers=1, env=None, timeout=1800,
            simulate=None, depth=None, seed=None, deadlock=False, heap="2g",
            extra=(), dfs=False, coverage=False, keep_out=False):
    """Run TLC on `module`.tla (path relative to specs/ or absolute).

    Returns TLCResult(ok, violated, kind, generated, distinct, depth, out, wall_s, printed).
    `printed` = list of values printed by PrintT/Print lines that look like JSON ("@@{...}").
    Raises TLCError on machinery failure.
    """
    if specdir is None:
        if os.path.isabs(module):
            specdir, module = os.path.split(module)
        else:
            specdir = os.path.join(SPECS, os.path.dirname(module))
            module = os.path.basename(module)
    module = module[:-4] if module.endswith(".tla") else module
    if cfg is None:
        cfg = module + ".cfg"
    meta = _scratch()
    jopts = ["-XX:+UseSerialGC" if workers == 1 else "-XX:+UseParallelGC",
             "-Xms64m", "-Xmx" + heap, "-Xss16m",
             "-DTLA-Library=" + LIBDIR]
    if dfs:
        jopts.append("-Dtlc2.tool.queue.IStateQueue=StateDeque")
    cmd = ["java"] + jopts + ["-cp", JAR + ":" + DEPS, "tlc2.TLC",
           "-metadir", meta, "-noGenerateSpecTE", "-config", cfg,
           "-workers", str(workers)]
    if not deadlock:
        cmd.append("-deadlock")
    if simulate is not None:
        cmd += ["-simulate", simulate]
    if depth is not None:
        cmd += ["-depth", str(depth)]
    if seed is not None:
        cmd += ["-seed", str(seed)]
    if coverage:
        cmd += ["-coverage", "1"]
    cmd += list(extra) + [module]
    e = dict(os.environ)
    e.pop("JAVA_TOOL_OPTIONS", None)
    if env:
        e.update({k: str(v) for k, v in env.items()})
    t0 = time.time()
    for attempt in range(3):
        try:
            p = subprocess.run(cmd, cwd=specdir, env=e, stdout=subprocess.PIPE, stderr=subprocess.STDOUT,
                               timeout=timeout, text=True, errors="replace")
        except subprocess.TimeoutExpired as ex:
            shutil.rmtree(meta, ignore_errors=True)
            raise TLCError("TLC timeout after %ss on %s" % (timeout, module))
        shutil.rmtree(meta, ignore_errors=True)
        if p.returncode in (143, 137, -15, -9) and attempt < 2:
            time.sleep(1.0)      # killed from outside (e.g. another job's pkill): run it again
            os.makedirs(meta, exist_ok=True)
            continue
        break
    out = p.stdout
    r = TLCResult(out=out, wall_s=time.time() - t0, rc=p.returncode, cmd=" ".join(cmd[-8:]))
    m = re.findall(r"(\d+) states generated, (\d+) distinct states found", out)
    if m:
        r["generated"], r["distinct"] = int(m[-1][0]), int(m[-1][1])
    else:
        r["generated"], r["distinct"] = 0, 0
    m = re.search(r"The depth of the complete state graph search is (\d+)", out)
    r["depth"] = int(m.group(1)) if m else None
    r["violated"] = None
    r["kind"] = None
    m = re.search(r"Error: Invariant (\S+) is violated", out)
    if m:
        r["violated"], r["kind"] = m.group(1), "invariant"
    m2 = re.search(r"Error: Action property (\S+) is violated", out)
    if m2:
        r["violated"], r["kind"] = m2.group(1), "action-property"
    if "Temporal properties were violated" in out:
        r["violated"], r["kind"] = r["violated"] or "temporal", "temporal"
    if re.search(r"Error: Assumption .* is false", out):
        r["violated"], r["kind"] = "ASSUME", "assumption"
    m3 = re.search(r"Error: The postcondition (\S*)\s*(is|was) (false|violated)", out) or \
        (re.search(r"postcondition", out, re.I) and re.search(r"Error:.*postcondition.*", out, re.I))
    if m3:
        r["violated"], r["kind"] = "POSTCONDITION", "postcondition"
    if "Error: Deadlock reached" in out:
        r["violated"], r["kind"] = "Deadlock", "deadlock"
    finished = ("Model checking completed" in out) or ("Finished in" in out) or simulate is not None
    other_err = re.findall(r"^Error: (?!Invariant|Action property|Temporal|Assumption|The postcondition|Deadlock|The behavior|The following behavior)(.*)$", out, re.M)
    hard = [x for x in other_err if x.strip()]
    if p.returncode not in (0, 10, 11, 12, 13) and r["violated"] is None:
        raise TLCError("TLC failed rc=%s on %s:\n%s" % (p.returncode, module, _short(out)))
    if r["violated"] is None and hard and not finished:
        raise TLCError("TLC error on %s: %s\n%s" % (module, hard[0], out[-3000:]))
    r["ok"] = r["violated"] is None and p.returncode == 0
    if not r["ok"] and r["violated"] is None:
        raise TLCError("TLC rc=%s without recognised verdict on %s:\n%s" % (p.returncode, module, out[-3000:]))
    r["printed"] = parse_printed(out)
    if coverage:
        r["coverage"] = parse_coverage(out)
    return r


def _short(out, n=3000):
    """tail of the output without the (long) emitted @@ lines"""
    lines = [x[:300] for x in out.splitlines() if not x.startswith('<<"@@"')]
    return "\n".join(lines)[-n:]


def parse_printed(out):
    """values printed via PrintT(<<"@@", ToJson(v)>>)  ->  list of python objects"""
    res = []
    for m in re.finditer(r'^<<"@@", "(.*)">>$', out, re.M):
        s = m.group(1).encode().decode("unicode_escape") if "\\" in m.group(1) else m.group(1)
        try:
            res.append(json.loads(s))
        except Exception:
            res.append(s)
    return res


def parse_coverage(out):
    """per-action 'taken' counts from -coverage output: {action: (distinct, total)}"""
    cov = {}
    for m in re.finditer(r"^<(\w+) line \d+, col \d+ to line \d+, col \d+ of module (\w+)>: (\d+):(\d+)", out, re.M):
        cov[m.group(2) + "." + m.group(1)] = (int(m.group(3)), int(m.group(4)))
    return cov


def counterexample(out):
    """extract the printed counter-example states (text) from a TLC run"""
    i = out.find("Error: ")
    return out[i:i + 6000] if i >= 0 else ""


def emit_json(module, cfg=None, env=None, outname="out.json", **kw):
    """Run a Gen_* module whose ASSUME/Init writes JSON to IOEnv.OUT; return (python object, TLCResult)."""
    d = _scratch()
    path = os.path.join(d, outname)
    e = dict(env or {})
    e["OUT"] = path
    try:
        r = run_tlc(module, cfg=cfg, env=e, **kw)
        if r["violated"]:
            raise TLCError("generator %s reported %s:\n%s" % (module, r["violated"], r["out"][-3000:]))
        with open(path) as f:
            data = json.load(f)
        return data, r
    finally:
        shutil.rmtree(d, ignore_errors=True)


def scratch_dir():
    return _scratch()
