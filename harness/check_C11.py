"""C11 -- dimensional collapse is detected per definition, applied exactly, reported once.

Specifications: specs/term/CollapseDefs.tla (detectors, masks), CollapseCases.tla (case generator),
Collapse.tla (the loop Solve -> Collapse -> Solve ... as a state machine), Trace_Collapse.tla.

  design      TLC model-checks Collapse.tla: reported /\\ mask = {}, mask' = mask \\cup reported, mask monotone and
              bounded, every evaluable point satisfies the collapsed relations, <>Stopped under weak fairness;
              refutation runs (mystic's as-found constraint composition, mask replaced / not updated) and vacuity
              witnesses must be VIOLATED.
  spec->code  (0) bounds collapse collapse_cost: mask algebra only (specs/term/CollapseCost.tla, harness/c11_cost.py);
              (1) detector case tables (harness/c11_detect.py): every history of the bounded class x catalogue of
              tolerance, window, target/offset, mask in every accepted format -> collapse_at / collapse_as /
              collapse_weight / collapse_position, the Collapse* termination conditions, collapsed(), update_mask,
              re-feeding the output as mask;
              (2) every reachable stop of the loop machine with the collapses applied before it, replayed on real
              solver objects through Collapse(): members named, reported collapse, masks afterwards, and the
              solver's constraints applied to every point of the domain (harness/c11_loop.replay_stop).
  embedding   the specifications number their parameters 0..N-1; harness/c11_embed.py also places them at rotating real
              positions (>= 8, non-monotone) of 12-dimensional monitors and solvers, so that code relying on the iteration
              order of a collapse set (ascending only below 8) shows; expectations stay TLC's.
  code->spec  real DE / DE2 / Nelder-Mead / Powell runs (Solve() and manual Step()/Collapse() loops) on objectives
              with flat and tied directions under Or(stop, CollapseAt, CollapseAs); every run is validated by TLC
              against Trace_Collapse.tla (harness/c11_loop.record_run / validate).
  measures    the same loop machine for CollapseWeight / CollapsePosition on solvers whose parameter vector is a flattened
              product measure (npts (2,2), (3,), (3,3); step monitor with `_npts`): relations "collapsed weight exactly 0.0
              and the factor's total weight unchanged", "tracked positions equal" (harness/c11_measure.py): design runs,
              refutation of the as-found composition, witnesses, emitted stops replayed through Collapse() (masks in the
              dict / set / where formats), recorded runs on objectives that drive weights to zero / merge positions.
"""
import time, json, random, collections
from concurrent.futures import ThreadPoolExecutor
from harness.core import Check, tier_seed, assert_repo, main_guard
from harness.tlc import run_tlc

RULE = ("a case = (recorded history, detector configuration incl. mask format) replayed on the real detector, its "
        "termination condition, collapsed() and update_mask, or (loop stop reached after a script of collapses, real "
        "solver object) replayed through Collapse(), or one recorded solver run validated by TLC; non-trivial = the "
        "specification reports a non-empty collapse or the mask removes a detected element, a Collapse() that applies "
        "something (or must not, because a stop member holds too), a run in which a collapse was applied and the cost "
        "was evaluated afterwards")

NOM = {"none": True, "idx": [], "prs": []}
TLC_CACHE = None          # set to a dict by the self-test


def new_check(a):
    return Check("C11", "model_checking", a.tier, a.seed, rule=RULE)


def mods():
    import mystic.collapse as ct, mystic.termination as mt, mystic.mask as ma
    from mystic.solvers import NelderMeadSimplexSolver
    return ct, mt, ma, NelderMeadSimplexSolver


# ------------------------------------------------------------------------------------------------------
# TLC runs of one invocation (started concurrently; each is a single-worker JVM)
# ------------------------------------------------------------------------------------------------------
def plan(thorough):
    t = "thorough" if thorough else "quick"
    cases = [("cases:param", "term/MC_CollapseCases", "MC_CC_param_%s.cfg" % t),
             ("cases:weight", "term/MC_CollapseCases", "MC_CC_weight_%s.cfg" % t),
             ("cases:position", "term/MC_CollapseCases", "MC_CC_position_%s.cfg" % t),
             # two parameters, windows of up to 3 records over 3 values: non-monotone windows whose last record lies
             # strictly inside their range (max-min vs. distance-from-the-last-record tell apart only there)
             ("cases:param1", "term/MC_CollapseCases", "MC_CC_param1_quick.cfg")]
    if thorough:
        cases = [("cases:param:p%d" % k, "term/MC_CollapseCases", "MC_CC_param_thorough_p%d.cfg" % k) for k in (0, 1, 2)] + cases[1:]
        cases.append(("cases:param2", "term/MC_CollapseCases", "MC_CC_param2_thorough.cfg"))
    design = [("design", "term/MC_Collapse", "MC_Collapse_%s.cfg" % t)]
    if thorough:
        design.append(("design:n3", "term/MC_Collapse", "MC_Collapse_n3.cfg"))
    script = [("script", "term/MC_Collapse", "MC_Collapse_script_%s.cfg" % t)]
    if thorough:       # 3 parameters, ties only: pairs sharing a member tied by successive collapses
        script.append(("script:n3chain", "term/MC_Collapse", "MC_Collapse_script_n3.cfg"))
    refute = [("refute:asis", "term/MC_Collapse", "MC_Collapse_asis.cfg", "EvalSatisfies"),
              ("refute:replace", "term/MC_Collapse", "MC_Collapse_replace.cfg", "NeverTwice"),
              ("refute:keep", "term/MC_Collapse", "MC_Collapse_keep.cfg", "CollapseBound")]
    wit = ["NoAtCollapse", "NoAsCollapse", "NoSecondCollapse", "NoPinnedAndTied", "NoMixedStop", "NoLimitStop", "NoMaskedCollapse", "NeverDone"]
    if not thorough:                 # quick: the witnesses of the antecedents the loop clauses of C11 depend on
        wit = ["NoSecondCollapse", "NoPinnedAndTied", "NoLimitStop", "NoMaskedCollapse"]
    refute += [("witness:" + w, "term/MC_Collapse", "MC_Collapse_wit_%s.cfg" % w, w) for w in wit]
    # ---- measure collapses (CollapseWeight / CollapsePosition), the same machine
    design.append(("design:measure", "term/MC_Collapse", "MC_Collapse_measure_%s.cfg" % t))
    refute += [("refute:measure-asis", "term/MC_Collapse", "MC_Collapse_measure_asis.cfg", "EvalSatisfies")]
    if thorough:       # (quick: the antecedents are counted among the emitted stops instead, see MEASURE_WITNESSES)
        refute += [("refute:measure-replace", "term/MC_Collapse", "MC_Collapse_measure_replace.cfg", "NeverTwice"),
                   ("refute:measure-keep", "term/MC_Collapse", "MC_Collapse_measure_keep.cfg", "CollapseBound")]
        mwit = ["NoZeroAndTracked", "NoChainedTracks", "NoMaskedMeasureCollapse", "NoWtAndPsAtOnce", "NoWtCollapse", "NoPsCollapse",
                "NoFullZero", "NoSecondCollapse"]
        refute += [("witness:measure:" + w, "term/MC_Collapse", "MC_Collapse_mwit_%s.cfg" % w, w) for w in mwit]
    return cases, design, script, refute


def _chained(tp):
    deg = collections.Counter((m, k) for m, q in tp for k in q)
    return any(v > 1 for v in deg.values())


# antecedents of the measure clauses, counted among the stops TLC emitted (each must occur; thorough also has TLC violate the
# corresponding Never-invariants of Collapse.tla)
MEASURE_WITNESSES = {
    "weights-and-positions-collapse-at-once": lambda c: bool(c["rw"] and c["rp"]),
    "collapsed-weight-of-a-tracked-support-point": lambda c: bool(c["rw"] or c["rp"]) and any(z[1] in q and z[0] == m for z in c["zw"] for m, q in c["tp"]),
    "chained-tracked-pairs": lambda c: bool(c["rp"]) and _chained(c["tp"]),
    "collapse-with-a-non-empty-measure-mask": lambda c: bool(c["rw"] or c["rp"]) and (len(c["mk"]["wt"]["els"]) > len(c["rw"]) or len(c["mk"]["ps"]["els"]) > len(c["rp"])),
    "second-collapse": lambda c: bool(c["rw"] or c["rp"]) and len(c["script"]) >= 1,
    "limit-stop-that-pre-empts-a-collapse": lambda c: c["msg"] == ["limit"] and bool(c["again"]),
    "stop-member-next-to-a-collapse-member": lambda c: "stop" in c["msg"] and len(c["msg"]) > 1,
    "set-or-where-format-mask-grown": lambda c: bool(c["rw"] or c["rp"]) and any(c["mk"][k]["fmt"] in ("set", "where") and c["mk"][k]["els"] for k in ("wt", "ps")),
    "none-mask-becomes-dict": lambda c: not c["script"] and bool(c["rw"]) and c["conf"]["initWt"]["fmt"] == "none" and c["mk"]["wt"]["fmt"] == "dict",
}


def mplan(thorough):
    """the emitted stops of the measure models: (name, module, cfg)"""
    items = [("mscript:22", "term/MC_Collapse", "MC_Collapse_mscript_%s22.cfg" % ("thorough" if thorough else "quick")),
             ("mscript:13", "term/MC_Collapse", "MC_Collapse_mscript_%s13.cfg" % ("thorough" if thorough else "quick")),
             ("mscript:22:window2", "term/MC_Collapse", "MC_Collapse_mscript_win22.cfg")]
    if thorough:
        items.append(("mscript:33", "term/MC_Collapse", "MC_Collapse_mscript_thorough33.cfg"))
    return items


# ------------------------------------------------------------------------------------------------------
# drivers of the recorded runs
# ------------------------------------------------------------------------------------------------------
def conf(atOn=True, asOn=True, atTol=(0, 1), atG=3, tgt=("none", ()), asTol=(0, 1), asG=3, initAt=NOM, initAs=NOM):
    return {"atOn": atOn, "asOn": asOn, "atTol": list(atTol), "atG": atG, "atTgt": {"mode": tgt[0], "v": list(tgt[1])},
            "asTol": list(asTol), "asG": asG, "initAt": initAt, "initAs": initAs}


def mask(idx=(), prs=()):
    return {"none": False, "idx": list(idx), "prs": [list(p) for p in prs]}


def scenarios(n):
    """(name, objective, termination) for n parameters; the last parameter is a flat direction, (0,1) a tied one"""
    a = [0.0, 1.0, -0.5, 0.75][:n]
    flat = {"w": [1] * (n - 1) + [0], "a": a, "ties": []}
    tied = {"w": [0, 1] + [1] * (n - 2), "a": [1.0, 1.0] + a[2:], "ties": [(0, 1)]}          # cost depends on x0 - x1
    both = {"w": [1, 0] + [1] * (n - 3) + ([0] if n > 2 else []), "a": a, "ties": [(0, 1)]}  # optimum x0 = x1 = 0
    origin = {"w": [1] * n, "a": [0.0] * (n - 1) + [1.0], "ties": []}                        # optimum at target 0 but the last
    flat2 = {"w": [0, 0] + [1] * (n - 2), "a": a, "ties": []}                                # cost ignores x0 and x1
    sc = [
        ("flat:at-none-tol0", flat, conf(asOn=False, atG=3)),
        ("flat:at-none-tol", flat, conf(asOn=False, atTol=(1, 64), atG=2)),
        ("flat:at-none-masked", flat, conf(asOn=False, atTol=(1, 64), atG=2, initAt=mask([n - 1]))),
        ("origin:at-scalar", origin, conf(asOn=False, atTol=(1, 16), atG=2, tgt=("scalar", [0.0]))),
        ("origin:at-scalar-masked", origin, conf(asOn=False, atTol=(1, 16), atG=3, tgt=("scalar", [0.0]), initAt=mask([0]))),
        ("origin:at-list", origin, conf(asOn=False, atTol=(1, 16), atG=2, tgt=("list", origin["a"]))),
        ("tied:as-tol0", tied, conf(atOn=False, asG=2)),
        ("tied:as-tol", tied, conf(atOn=False, asTol=(1, 32), asG=2)),
        ("tied:as-masked-pair", tied, conf(atOn=False, asTol=(1, 32), asG=2, initAs=mask(prs=[(1, 0)]))),
        ("tied:as-masked-index", tied, conf(atOn=False, asTol=(1, 32), asG=3, initAs=mask(idx=[n - 1]))),
        ("both:at-none+as-tol0", both, conf(atG=4, asG=2)),
        ("both:at-none+as", both, conf(atTol=(1, 64), atG=3, asTol=(1, 32), asG=2)),
        ("both:at-scalar+as", both, conf(atTol=(1, 16), atG=2, tgt=("scalar", [0.0]), asTol=(1, 16), asG=3)),
        # only x1 can be pinned (x0 masked), loosely tied to x0: a pinned parameter with a free partner
        ("both:at-scalar-masked+as-loose", both, conf(atTol=(1, 64), atG=2, tgt=("scalar", [0.0]), initAt=mask([0]), asTol=(1, 4), asG=2)),
        # exact equality in two flat directions (NM / Powell start with x0 = x1)
        ("flat2:as-tol0", flat2, conf(atOn=False, asG=2)),
        ("flat2:at-scalar-tol0+as-tol0", flat2, conf(atG=2, tgt=("scalar", [0.25]), asG=3)),
    ]
    return sc


X0 = [0.5, -1.0, 0.0, 0.0]     # NM / Powell start; exact zeros in the flat directions stay put under Powell
X0FLAT2 = [0.25, 0.25, 0.5, 0.0]


def drivers(thorough, seed):
    runs = []
    rng = random.Random(seed)
    dims = (2, 3, 4) if thorough else (2, 3)
    seeds = range(3) if thorough else range(1)
    for n in dims:
        for name, obj, cf in scenarios(n):
            for kind in ("DE", "DE2", "NM", "PW"):
                for k in seeds:
                    mode = ("solve", "manual")[(len(runs) + k) % 2] if not thorough else None
                    for md in ([mode] if mode else ["solve", "manual"]):
                        stop = ("never", "vtr", "cog")[(len(runs)) % 3]
                        gens = {"DE": 40, "DE2": 40, "NM": 60, "PW": 6}[kind]
                        runs.append({"name": name, "kind": kind, "n": n, "conf": cf, "obj": obj, "mode": md, "stop": stop,
                                     "seed": seed * 1000 + k * 17 + n, "x0": (X0FLAT2 if name.startswith("flat2") else X0)[:n], "gens": gens, "npop": 6,
                                     "evals": 600})
    # a share of the runs (every third, and every per-parameter-target run) once more in a 12-dimensional solver, the
    # specification's parameters at rotating positions such as [1, 8], [9, 2, 11] (harness/c11_embed.py); the filler
    # parameters are named in the initial masks and enter the cost only weakly
    from harness.c11_embed import MAPS, DIM
    extra = []
    for i, r in enumerate(runs):
        if i % 3 == 1 or r["name"] == "origin:at-list":
            maps = MAPS[r["n"]][1:]
            e = dict(r, pm=maps[(i // 3 + len(extra)) % len(maps)], dim=DIM, evals=3000,
                     gens={"DE": 40, "DE2": 40, "NM": 240, "PW": 12}[r["kind"]])
            extra.append(e)
    return runs + extra


# ------------------------------------------------------------------------------------------------------
def explore(ck, a, light=False):
    """light: self-test mode (smaller runs, no design model checking)"""
    from harness import c11_detect as D, c11_loop as L, c11_measure as Mz
    ct, mt, ma, NM = mods()
    thorough = a.tier == "thorough" and not light
    cases, design, script, refute = plan(thorough)
    mscript = mplan(thorough)
    if light:
        design, refute = [], []
        mscript = mscript[:2]
    jobs = max(2, min(a.jobs, 12 if not thorough else 16))
    nthreads = max(1, jobs // 2)        # concurrent single-worker TLC runs
    nproc = max(1, jobs - nthreads)      # replay processes
    import multiprocessing
    ppool = multiprocessing.get_context("fork").Pool(nproc)      # forked before any thread exists (and after any self-test mutation)
    pool = ThreadPoolExecutor(max_workers=nthreads)

    def chunks(lst, k):
        k = max(1, k)
        return [lst[i:i + k] for i in range(0, len(lst), k)]

    def tlc(item):
        if TLC_CACHE is not None and item[0] in TLC_CACHE:      # self-test: the specification side does not change
            return TLC_CACHE[item[0]]
        r = run_tlc(item[1], cfg=item[2], workers=1, timeout=3000, heap="6g")
        if TLC_CACHE is not None:
            TLC_CACHE[item[0]] = r
        return r
    futs = {}
    for item in script + mscript[:1] + sorted(cases, key=lambda it: it[0] != "cases:param2") + mscript[1:] + design + refute:     # the longest runs first
        futs[item[0]] = pool.submit(tlc, item)

    phase = ck.extra.setdefault("phase_wall_s", {})
    tstart = time.time()

    def mark(name):
        phase[name] = round(time.time() - tstart, 1)

    from harness import c11_cost as K
    from harness.tlc import scratch_dir
    cost_items, cost_cases, cost_fut = K.start(thorough, run_tlc, scratch_dir, pool.submit, TLC_CACHE)

    # ---- code -> spec: record real runs while TLC works
    t0 = time.time()
    runs = drivers(thorough, a.seed)
    if light:
        runs = [r for r in runs if r["n"] == 3]
    traces = [tr for part in ppool.map(L.record_chunk, chunks(runs, 1 + len(runs) // (4 * nproc))) for tr in part]
    # ... and the runs on product measures (validated against the same Trace_Collapse.tla)
    mruns = Mz.mdrivers(thorough, a.seed)
    if light:
        mruns = [r for r in mruns if r["kind"] != "DE2" and r["name"] != "nothing"]
    nparam = len(runs)
    mrec = ppool.map_async(Mz.record_mchunk, chunks(mruns, 1 + len(mruns) // (4 * nproc)))     # collected after the case tables
    ck.extra["record_wall_s"] = round(time.time() - t0, 1)
    vfuts = {}

    def submit_validation(lo, hi, meas):
        by_n = collections.defaultdict(list)
        for i in range(lo, hi):
            by_n[runs[i]["n"]].append(i)
        for n, idxs in by_n.items():
            chunk = 250 if not meas else 60
            for j in range(0, len(idxs), chunk):
                part = idxs[j:j + chunk]
                vfuts[(n, meas, j)] = (part, pool.submit(L.validate, [traces[i] for i in part], n))
    submit_validation(0, nparam, False)

    mark("recorded")
    # ---- spec -> code (1): detector case tables (in the order their TLC runs are expected to finish)
    ndet = 0
    rank = {"cases:weight": 0, "cases:param": 1, "cases:param:p0": 1, "cases:param:p1": 2, "cases:param:p2": 3,
            "cases:position": 4, "cases:param2": 5}
    for item in sorted(cases, key=lambda it: rank.get(it[0], 9)):
        r = futs[item[0]].result()
        mark(item[0] + "-tlc")
        ck.mc(r, "CollapseCases.tla (%s)" % item[2])
        if r.violated:
            ck.violation("spec:" + r.violated, {"tlc": r.out[-3000:]}, "design invariant %s violated in CollapseCases.tla (%s)" % (r.violated, item[2]))
            continue
        hdr = r.printed[0]
        states = r.printed[1:]
        if light:                       # self-test: every third history of the table (all configurations)
            states = states[::3]
        # round-robin chunks: the short histories (which carry the mask catalogue) come first in TLC's BFS order
        nch = max(1, min(len(states), 8 * nproc))
        for n, k, viol, perkey in ppool.imap_unordered(D.replay_chunk, [(hdr, states[j::nch], 2 if item[0].startswith("cases:param:p") else 1) for j in range(nch)]):
            ck.evaluations += n
            ck.nontrivial_anon += k
            ndet += n
            for key, detail, what in viol:
                ck.violation(key, detail, what)
            for key, cnt in perkey.items():          # occurrences beyond the ones written out
                extra = cnt - sum(1 for v in viol if v[0] == key)
                if extra > 0 and ck.match_known(key) is None:
                    ck.violations += extra
                    ck.viol_keys[key] = ck.viol_keys.get(key, 0) + extra
        if states:
            st = states[len(states) // 2]
            c = hdr["defcat"][len(hdr["defcat"]) // 2]
            ck.sample({"history": st["h"], "configuration": D.describe(c), "specification_reports": st["d"][len(hdr["defcat"]) // 2]})
        mark(item[0] + "-replayed")
    ck.extra["detector_cases"] = ndet
    traces += [tr for part in mrec.get() for tr in part]
    runs = runs + mruns
    submit_validation(nparam, len(runs), True)
    mark("measure-runs-recorded")

    # ---- spec -> code (2): the loop stops
    nstop = 0
    for sitem in script:
        r = futs[sitem[0]].result()
        mark(sitem[0] + "-tlc")
        ck.mc(r, "Collapse.tla stops with scripts (%s)" % sitem[2])
        if r.violated:
            ck.violation("spec:" + r.violated, {"tlc": r.out[-3000:]}, "design invariant %s violated in Collapse.tla (%s)" % (r.violated, sitem[2]))
        vals = sorted(set(v for cc in r.printed for p in cc["h"] for v in p))
        stops = list(enumerate(r.printed))
        if light:
            stops = stops[::2]
        work = [(part, vals) for part in chunks(stops, 1 + len(stops) // (4 * nproc))]
        for out in ppool.map(L.replay_stops_chunk, work):
            for j, (i, nt, viol) in enumerate(out):      # every stop twice: as it is, and embedded at rotating positions
                ck.case(nontrivial=nt, key=("stop", sitem[0], i, j % 2))
                ck.trace()
                nstop += 1
                for key, detail, what in viol:
                    ck.violation(key, detail, what)
        if r.printed and sitem is script[0]:
            c = r.printed[len(r.printed) // 2]
            ck.sample({"loop_stop": {"script": c["script"], "history": c["h"], "len": c["l"], "members": c["msg"]},
                       "specification": {"reported_pins": c["ra"], "reported_ties": c["rs"], "masks_after": c["mk"],
                                         "points_breaking_a_relation": c["bad"][:3]}})
    ck.extra["loop_stops_replayed"] = nstop
    mark("stops-replayed")

    # ---- spec -> code (2m): the loop stops of the measure models
    nmstop = napplied = 0
    mwitness = dict((k, 0) for k in MEASURE_WITNESSES)
    for sitem in mscript:
        r = futs[sitem[0]].result()
        mark(sitem[0] + "-tlc")
        ck.mc(r, "Collapse.tla measure stops with scripts (%s)" % sitem[2])
        if r.violated:
            ck.violation("spec:" + r.violated, {"tlc": r.out[-3000:]}, "design invariant %s violated in Collapse.tla (%s)" % (r.violated, sitem[2]))
        domain = sorted(set(tuple(p) for cc in r.printed for p in cc["h"]))
        stops = list(enumerate(r.printed))
        if light:
            stops = stops[::2]
        work = [(part, domain) for part in chunks(stops, 1 + len(stops) // (4 * nproc))]
        for out in ppool.map(Mz.replay_mstops_chunk, work):
            for (i, nt, viol) in out:
                ck.case(nontrivial=nt, key=("mstop", sitem[0], i))
                ck.trace()
                nmstop += 1
                for key, detail, what in viol:
                    ck.violation(key, detail, what)
        napplied += sum(1 for c in r.printed if c["rw"] or c["rp"])
        for c in r.printed:
            for k, test in MEASURE_WITNESSES.items():
                mwitness[k] += 1 if test(c) else 0
        if r.printed and sitem is mscript[0]:
            c = next((c for c in r.printed if c["rw"] and c["rp"] and c["script"]), r.printed[len(r.printed) // 2])
            ck.sample({"measure_loop_stop": {"npts": Mz.npts_of(c["conf"]), "script": c["script"], "history": c["h"], "len": c["l"], "members": c["msg"]},
                       "specification": {"reported_zero_weights": c["rw"], "reported_tracked_pairs": c["rp"], "masks_after": {k: c["mk"][k] for k in ("wt", "ps")},
                                         "all_zero_weights": c["zw"], "all_tracked_pairs": c["tp"],
                                         "patterns_breaking_a_relation(per factor: weights 0/1, positions by equality, mass flag)": c["mbad"][:3]}}, limit=8)
    ck.extra["measure_loop_stops_replayed"] = nmstop
    ck.extra["measure_loop_stops_applying_a_collapse"] = napplied
    ck.extra["measure_antecedents_among_emitted_stops"] = mwitness
    for k, cnt in mwitness.items():
        if not cnt and not light:
            ck.violation("spec:vacuous:measure:" + k, {"counts": mwitness}, "no emitted measure stop shows the antecedent '%s'" % k)
    mark("measure-stops-replayed")

    # ---- bounds collapse: mask algebra only
    K.finish(ck, cost_items, cost_cases, cost_fut.result())
    mark("collapse_cost-mask-algebra")

    # ---- design: model checking, refutations, vacuity witnesses
    for item in design:
        r = futs[item[0]].result()
        ck.mc(r, "Collapse.tla (%s)" % item[2])
        if r.violated:
            ck.violation("spec:" + r.violated, {"tlc": r.out[-3000:]}, "design property %s violated in Collapse.tla (%s)" % (r.violated, item[2]))
    wit = {}
    for item in refute:
        r = futs[item[0]].result()
        wit[item[0]] = r.violated
        if r.violated != item[3]:
            ck.violation("spec:vacuous:" + item[0], {"expected": item[3], "got": r.violated, "tlc": r.out[-2000:]},
                         "%s: TLC must violate %s (refutation / vacuity witness), got %s" % (item[2], item[3], r.violated))
    if wit:
        ck.extra["refuted_or_witnessed"] = wit

    mark("design-tlc")
    # ---- code -> spec: verdicts
    nrun = 0
    for (n, meas, j), (part, fut) in sorted(vfuts.items()):
        r, verdicts = fut.result()
        ck.mc(r, "Trace_Collapse.tla (N=%d%s, %d runs)" % (n, ", product measures" if meas else "", len(part)))
        if verdicts is None:
            ck.violation("trace:invariant:" + str(r.violated), {"tlc": r.out[-3000:]},
                         "invariant %s of Collapse.tla violated in a faithful recorded run (N=%d)" % (r.violated, n))
            continue
        for i, v in zip(part, verdicts):
            run, tr = runs[i], traces[i]
            applied = [e for e in tr if e["ev"] == "Collapse"]
            after = any(e["ev"] == "CostCall" for e in tr)
            ck.case(nontrivial=bool(applied) and after, key=("run", i))
            ck.trace()
            nrun += 1
            head = [dict((k, e[k]) for k in e if k in ("ev", "msg", "ra", "rs", "rw", "rp", "len", "calls", "gens", "what")) for e in tr if e["ev"] != "CostCall"]
            detail = {"run": dict((k, run[k]) for k in run if k != "conf"), "termination": run["conf"], "events(without CostCall)": head[:30]}
            if v["dev"] is None:
                ev = v["event"] or {}
                if ev.get("ev") == "Raise" and "npts" in run:
                    key = "loop:raises[measure-mask-format:%s]:%s" % (Mz.fmt_class(run["conf"]), ev.get("what", "").split("(")[0])
                    what = "%s %s %s npts=%s: the run raised %s after %d collapse(s)" % (run["kind"], run["mode"], run["name"], run["npts"], ev.get("what"), ev.get("ncol", 0))
                elif ev.get("ev") == "Raise":
                    key = "loop:raises[target=%s]:%s" % (run["conf"]["atTgt"]["mode"] if run["conf"]["atOn"] else "-", ev.get("what", "").split("(")[0])
                    what = "%s %s %s: the run raised %s after %d collapse(s)" % (run["kind"], run["mode"], run["name"], ev.get("what"), ev.get("ncol", 0))
                else:
                    key = "loop:not-a-behaviour:%s" % ev.get("ev", "end-of-trace")
                    what = "%s %s %s: event #%d %s is not explainable by Collapse.tla" % (run["kind"], run["mode"], run["name"], v["at"], json.dumps(ev)[:300])
                ck.violation(key, dict(detail, trace=tr[:400]), what)
                continue
            for clause in v["dev"]:
                ck.violation("loop:%s:%s" % (clause, run["kind"]), dict(detail, broken_clauses=v["dev"], trace=tr[:400]),
                             "%s %s %s (n=%d, seed %d): recorded run breaks %s of Collapse.tla (collapses: %s)" % (
                                 run["kind"], run["mode"], run["name"], run["n"], run["seed"], clause,
                                 [(e["ra"], e["rs"], e["rw"], e["rp"]) for e in applied]))
    ck.extra["recorded_runs"] = nrun
    ck.extra["recorded_measure_runs"] = len(mruns)
    ck.extra["measure_runs_with_applied_collapse"] = sum(1 for tr in traces[nparam:] if any(e["ev"] == "Collapse" for e in tr))
    ck.extra["measure_cost_calls_not_paired_with_a_constrained_candidate"] = sum(tr[-1].get("unpaired", 0) for tr in traces[nparam:])
    mark("traces-validated")
    ck.extra["runs_with_applied_collapse"] = sum(1 for tr in traces if any(e["ev"] == "Collapse" for e in tr))
    if traces:
        i = next((i for i, tr in enumerate(traces) if sum(e["ev"] == "Collapse" for e in tr) >= 2), 0)
        tr = traces[i]
        ck.sample({"recorded_run": dict((k, runs[i][k]) for k in ("name", "kind", "n", "mode", "stop", "seed")),
                   "events(without CostCall)": [dict((k, e[k]) for k in e if k in ("ev", "msg", "ra", "rs", "vals", "len", "before", "after", "best")) for e in tr if e["ev"] not in ("CostCall", "New")][:8],
                   "cost_calls_checked": sum(e["ev"] == "CostCall" for e in tr)}, limit=9)
    j = next((i for i in range(nparam, len(traces)) if sum(e["ev"] == "Collapse" for e in traces[i]) >= 2 and traces[i][-1]["ev"] == "End"), None)
    if j is not None:
        tr = traces[j]
        ck.sample({"recorded_measure_run": dict((k, runs[j][k]) for k in ("name", "kind", "npts", "mode", "stop", "seed")),
                   "events(without CostCall)": [dict((k, e[k]) for k in e if k in ("ev", "msg", "rw", "rp", "len", "after", "best")) for e in tr if e["ev"] not in ("CostCall", "New")][:8],
                   "cost_calls_checked(each with its mass flags)": sum(e["ev"] == "CostCall" for e in tr)}, limit=10)
    pool.shutdown()
    ppool.close()
    ppool.join()
    ck.exhaustive = False
    ck.assumptions = [
        "parameter values of the case tables are small integers and tolerances dyadic rationals >= 0, so IEEE arithmetic is exact",
        "look-back windows of the termination conditions are integers >= 0 (generations=None raises in the conditions themselves)",
        "product measures have equal-sized factors (Monitor.wts/pos and tools.measure_indices are only defined for them)",
        "the empty 'where' mask of collapse_position is () -- ((), ()) is rejected by its own input validation",
        "embedding (harness/c11_embed.py): the specification's parameters 0..N-1 are also placed at rotating real positions such as "
        "[1,8], [8,1], [9,2,11], [3,8,1] of 12-dimensional monitors / solvers (every parameter history of the case tables [every "
        "second one of the largest table], every loop stop, a third of the recorded runs and all per-parameter-target runs); "
        "the FILLER parameters never collapse: in monitors they move by >= 50 per record (tolerances <= 2), their distances to "
        "each other and to embedded parameters change by >= 50 per record, their per-parameter targets are -1000; for the "
        "spread tests (target=None, offset=True), which report everything on a one-record window, and in recorded runs the "
        "fillers are named in the masks; a filler that is reported or constrained is a violation; under an embedding mask "
        "pairs are compared without orientation (a mask pair counts in either orientation)",
        "relations applied so far are jointly satisfiable: nothing is demanded of a tie-connected component pinned at two different values",
        "target=None pins a parameter at whatever value the first evaluation after the collapse shows (it must then stay there)",
        "recorded runs: deterministic objectives sum w_k (x_k-a_k)^2 + sum (x_i-x_j)^2; every run has generation and evaluation limits; "
        "Detect = reported is re-derived by TLC on recorded runs only for tolerance 0 (values are equality-preserving ids)",
        "collapse_cost / CollapseCost (bounds collapse): the mask algebra only (report = bounds intersected with the mask, nothing if nothing "
        "new, update_mask, fixed point) on the implementation's own unmasked results; its interval search is not specified",
        "measure collapses in the loop: product measures with equal-sized factors, npts (2,2), (3,) and (3,3); the termination is "
        "Or(stop, CollapseWeight, CollapsePosition) (no CollapseAt / CollapseAs next to them); the relation of a collapsed weight is "
        "'exactly 0.0, and the factor's total weight equals that of the candidate the solver's constraints were applied to' up to a "
        "relative rounding of 2^-40 of the renormalisation (impose_unweighted: 'norm-preserving'); of a tracked pair 'positions exactly "
        "equal'; the weight a tracked pair moves from its second to its first member (documented for impose_measure) is not demanded; "
        "nothing is demanded of a factor ALL of whose weights were collapsed, and candidates whose factor has total weight 0 are not probed; "
        "a candidate whose weights OUTSIDE the collapsed ones of a factor are all exactly 0.0 has no point with 'collapsed weights 0 and "
        "total weight kept' (no projection): nothing is demanded of that factor for that candidate (NoProjection in Collapse.tla; in "
        "recorded runs TLC decides it from the candidate's exactly-zero weights the harness records with every cost call)",
        "measure clause names carry the circumstance: [index-not-tracked | index-in-tracked-pair] x [first-collapse-of-the-factor | "
        "after-an-older-collapse-of-the-factor] (was the weight collapsed when its factor already carried a zero weight or tracked pair of "
        "an EARLIER Collapse(); for the total-weight clause: some zero weight of the factor was)",
        "measure runs: no user constraints are installed (the solver's constraints are exactly the collapse constraints, so the "
        "candidate's total weight is observable by wrapping solver._constraints); Detect = reported is re-derived by TLC on recorded "
        "runs for tolerance 0 only (signed equality-preserving ids: weight <= 0, |p_i - p_j| <= 0)",
        "CollapseAs(offset=True) in the solver loop: NOTHING is claimed about the applied relation.  The docstrings define the "
        "detector only (collapse_as: 'ptp(pairwise(parameters)) <= tolerance', an unsigned distance) and impose_as(mask, offset) for a "
        "NUMERIC offset; no docstring says which offset a CollapseAs(offset=True) collapse applies (the detector reports pairs, not "
        "offsets, and the sign of the recorded difference is lost), and Solver.Collapse() passes the condition's boolean "
        "offset=True on as the number 1 (x_j = x_i + 1).  The detector and its mask are covered by the case tables",
        "CollapseCost in the solver loop is not covered; that the inner Step loop returns is C05",
    ]


# ------------------------------------------------------------------------------------------------------
def main():
    a = tier_seed()
    assert_repo()
    if a.selftest:
        from harness import c11_selftest
        return c11_selftest.run(a, explore, new_check)
    ck = new_check(a)
    explore(ck, a)
    return ck.finish()


if __name__ == "__main__":
    main_guard(main)
