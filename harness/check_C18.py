"""C18 -- moment-imposing transforms hit their target and keep what they promise; the statistical
definitions, L-p norms and point-to-point metrics equal their textbook (weighted) definitions.

spec -> code.  specs/math/Moments.tla holds the exact rational definitions and the post-conditions of
the transforms (OpTable + the surgery relations) and a state machine over (samples, weights) with one
action per public call.  TLC

  * defs runs (MaxSteps = 0): enumerates every initial state (integer samples x integer weights, not
    all zero), checks the design invariants and emits each state with EVERY definition evaluated on it
    (Obs) plus the premises of the surgeries; the header carries the post-condition table (which
    observable a call must reach, which it must keep, what must be non-zero for it to be defined, the
    targets), the trimming catalogue, the test-function tables and the index / pair selections with
    their designated positions;
  * seq runs (MaxSteps = 2): explores every sequence of <= 2 transform calls (successor = any
    candidate satisfying the post-condition relation), checks the "after X" / "X then Y" invariants and
    emits each reached state with its history, its light observables and the set `det` of observables
    whose value the post-conditions fix.

The harness replays every emitted state on the real mystic functions:
  definitions      real value (float) vs the exact rational TLC printed, for python lists and numpy
                   arrays, weighted, and with weights=None on the all-ones states;
  post-conditions  call the real impose_* / normalize ..., measure the RESULT exactly (the returned
                   floats are dyadic rationals; integer arithmetic) and require: reached observable =
                   target, kept observables = the values TLC printed for the input, designated weights
                   exactly 0.0, no other weight lost;
  sequences        feed the real output of call 1 into call 2 and compare the observables in `det` with
                   the ones TLC printed for the final state.
Second and third part (harness/c18_stats.py): specs/math/Stats.tla (EXTENDS Moments: standardised moments,
extrema and tol= forms, weighted_select, a second trimming catalogue with its post-condition table, the
normalisation case table; the order-statistic transforms as actions, checked by TLC in the *_facts run) and
specs/math/StatsDist.tla (two point sets; distance matrices / pairwise / reduced forms, Lnorm(p, axis), Lipschitz
quantities, feasibility; moves swap / translate / negate / reverse with their invariants).  Same scheme: TLC
emits every state of the bounded class with the expected values, the harness calls the real functions.

Tolerance (fixed): |got - exact| <= 1e-12 + 1e-9 * |exact|.  The measuring instruments are calibrated
against TLC on every initial state (exact equality on the integer input, else machinery failure).
"raises" and "returns nan where the operation is defined" are reported under keys of their own.
"""
import math, time
from harness.core import Check, tier_seed, assert_repo, main_guard
from harness.tlc import run_tlc
from harness import c18_stats

MODULE = "math/MC_Moments"


def module_of(cfg):
    """the TLC module a cfg file belongs to (MC_<Module>_<what>.cfg)"""
    return "math/" + ("MC_StatsDist" if cfg.startswith("MC_StatsDist") else "MC_Stats" if cfg.startswith("MC_Stats") else "MC_Moments")
CACHE = {}            # job -> printed values of the TLC run (selftest: TLC once, replay per mutant)
CORRUPT = {"on": False, "stats": False}      # selftest: corrupt an expected value of the Moments / of the Stats + StatsDist emissions


# ------------------------------------------------------------------------------------------ helpers
# Exact numbers are pairs (num, den) of python ints, den > 0; the spec's <<num,den>> (Undef: den = 0).
TEN12 = 10 ** 12


def undef(v):
    return v[1] == 0


def ivec(xs):
    """reals returned by mystic -> (ints, D) with x_i = ints_i / D exactly (a float is a dyadic rational)"""
    rs = [float(x).as_integer_ratio() for x in xs]
    D = max(d for _, d in rs)
    return [n_ * (D // d) for n_, d in rs], D


def finite(xs):
    try:
        return all(math.isfinite(float(x)) for x in xs)
    except Exception:
        return False


def qclose(got, exp):
    """|got - exp| <= 1e-12 + 1e-9 |exp|, in integers"""
    (a, b), (p, q) = got, exp
    return abs(a * q - p * b) * TEN12 <= b * q + 1000 * b * abs(p)


def close(got, exp):
    try:
        g = float(got)
    except Exception:
        return False
    if not math.isfinite(g):
        return False
    return qclose(g.as_integer_ratio(), exp)


def fl(v):
    return None if v is None else v[0] / v[1]


# --- measuring instruments: exact integer arithmetic; calibrated against TLC on every initial state.
# s = (ints, Ds), w = (ints, Dw); mean / central moments / order statistics do not depend on Dw.
def i_mean(s, w):
    (si, Ds), (wi, _) = s, w
    return sum(a * b for a, b in zip(wi, si)), sum(wi) * Ds


def i_cm(s, w, k):
    (si, Ds), (wi, _) = s, w
    W = sum(wi)
    S = sum(a * b for a, b in zip(wi, si))
    return sum(b * (W * a - S) ** k for a, b in zip(si, wi)), W ** (k + 1) * Ds ** k


def i_median(s, w):
    (si, Ds), (wi, _) = s, w
    n = len(si)
    order = sorted(range(n), key=lambda i: (si[i], i))
    if all(x == wi[0] for x in wi):
        if n % 2:
            return si[order[n // 2]], Ds
        return si[order[n // 2 - 1]] + si[order[n // 2]], 2 * Ds
    if n % 2 == 0:
        return None
    W, c = sum(wi), 0
    for i in order:
        c += wi[i]
        if 2 * c >= W:
            return si[i], Ds


def i_mad(s, w):
    m = i_median(s, w)
    if m is None:
        return None
    (si, Ds), (p, q) = s, m
    return i_median(([abs(x * q - p * Ds) for x in si], Ds * q), w)


def _cum(si, wi):
    order = sorted(range(len(si)), key=lambda i: (si[i], i))
    cum, c = [], 0
    for i in order:
        c += wi[i]
        cum.append(c)
    return order, cum


def i_trimw(s, w, k):
    """interpolated trimmed weights, in units of 1/(100 Dw)"""
    order, cum = _cum(s[0], w[0])
    W = cum[-1]
    lo, hi = k[0] * W, (100 - k[1]) * W
    tw = [0] * len(order)
    for p, i in enumerate(order):
        a, b = (100 * cum[p - 1] if p else 0), 100 * cum[p]
        tw[i] = max(0, min(b, hi) - max(a, lo))
    return tw, 100 * w[1]


def i_winsw(s, w, k):
    order, cum = _cum(s[0], w[0])
    n, W = len(order), cum[-1]
    lo, hi = k[0] * W, k[1] * W
    below = lambda p: cum[p - 1] if p else 0
    plo = min(p for p in range(n) if 100 * cum[p] > lo)
    phi = max(p for p in range(n) if 100 * (W - below(p)) > hi)
    ww = [0] * n
    for p, i in enumerate(order):
        if p < plo or p > phi:
            ww[i] = 0
        elif p == plo and p == phi:
            ww[i] = W
        elif p == plo:
            ww[i] = cum[p]
        elif p == phi:
            ww[i] = W - below(p)
        else:
            ww[i] = w[0][i]
    return ww, w[1]


def measure(ref, s, w, ks):
    """observable [o, j] of the spec, measured exactly on s = (ints, Ds), w = (ints, Dw) -> (num, den) | None"""
    o, j = ref["o"], ref["j"]
    if o == "mean":
        return i_mean(s, w)
    if o == "var":
        return i_cm(s, w, 2)
    if o == "m3":
        return i_cm(s, w, 3)
    if o == "m4":
        return i_cm(s, w, 4)
    if o == "spread":
        return max(s[0]) - min(s[0]), s[1]
    if o == "total":
        return sum(w[0]), w[1]
    if o == "prod":
        p = 1
        for x in w[0]:
            p *= x
        return p, w[1] ** len(w[0])
    if o == "median":
        return i_median(s, w)
    if o == "mad":
        return i_mad(s, w)
    if o == "tmean":
        return i_mean(s, i_trimw(s, w, ks[j - 1]))
    if o == "tvar":
        return i_cm(s, i_trimw(s, w, ks[j - 1]), 2)
    if o == "wmean":
        return i_mean(s, i_winsw(s, w, ks[j - 1]))
    if o == "wvar":
        return i_cm(s, i_winsw(s, w, ks[j - 1]), 2)
    raise KeyError(o)


def look(obs, ref):
    v = obs[ref["o"]]
    return v[ref["j"] - 1] if ref["j"] else v


class Res(object):
    """what one job reports back to the parent process"""
    def __init__(self):
        self.cases = 0
        self.nontrivial = 0
        self.traces = 0
        self.viol = {}           # key -> [count, [ (detail, what) x <=2 ]]
        self.samples = []
        self.tlc = {}
        self.spec_violated = None
        self.clauses = {}        # clause -> [cases, nontrivial]

    def case(self, clause, nontrivial):
        self.cases += 1
        c = self.clauses.setdefault(clause, [0, 0])
        c[0] += 1
        if nontrivial:
            self.nontrivial += 1
            c[1] += 1

    def violation(self, key, detail, what):
        v = self.viol.setdefault(key, [0, []])
        v[0] += 1
        if len(v[1]) < 2:
            v[1].append((detail, what))


# ------------------------------------------------------------------------------------------ post-conditions
def replay_postconditions(mm, hdr, obs, S, W, Wcall, vname, s_i, w_i, nontriv, res, mark=""):
    """every (row, target) of the post-condition table hdr["ops"] on one state: call the real transform, measure the
    result exactly, require `reach` = target and every `keep` observable = the value TLC printed for the input.
    mark: suffix of the clause names (the table of Stats.tla indexes the second trimming catalogue)"""
    ks = hdr["ks"]
    n = len(s_i)
    for ri, row in enumerate(hdr["ops"]):
        fn = row["fn"]
        if row["needs"]["o"] and look(obs, row["needs"])[0] == 0:
            continue                                   # operation not defined here (degenerate)
        cur = look(obs, row["reach"])
        if undef(cur):
            continue
        f = getattr(mm, fn)
        for t in row["targets"]:
            goal = (t[0] * t[0], t[1] * t[1]) if row["sq"] else (t[0], t[1])
            tf = t[0] / t[1]
            clause = fn + ("[order=%d]" % row["ord"] if row["ord"] else "") + ("[k]" if row["k"] else "") + mark + ("[clip]" if row["clip"] else "")
            res.case(clause, goal[0] * cur[1] != cur[0] * goal[1])
            ctx = {"fn": fn, "row": {k: row[k] for k in ("k", "clip", "ord", "sq")}, "target": t, "samples": s_i, "weights": w_i,
                   "container": vname, "weights_arg": "None" if Wcall is None else "given"}
            try:
                if fn in ("normalize",):
                    s2, w2 = S, f(W, tf)
                elif fn in ("impose_sum", "impose_product"):
                    s2, w2 = S, f(tf, W)
                elif fn == "impose_weight_norm":
                    s2, w2 = f(S, W, tf)
                elif fn == "impose_moment":
                    s2, w2 = (f(tf, S, Wcall, order=row["ord"], skew=False) if row["ord"] % 2 else f(tf, S, Wcall, order=row["ord"])), W
                elif row["k"]:
                    s2, w2 = f(tf, S, Wcall, k=kw_k(ks[row["k"] - 1]), clip=row["clip"]), W
                else:
                    s2, w2 = f(tf, S, Wcall), W
            except Exception as ex:
                res.violation("%s:raises-%s" % (clause, type(ex).__name__), dict(ctx, error=repr(ex)[:300]),
                              "%s(%s) on samples %s weights %s raised %r" % (clause, tf, s_i, w_i, ex))
                continue
            if len(s2) != n or len(w2) != n or not finite(s2) or not finite(w2):
                res.violation("%s:returns-nan-where-defined" % clause, dict(ctx, got=[repr(s2), repr(w2)]),
                              "%s(%s) on samples %s weights %s is defined (spec) but mystic returned %r" % (clause, tf, s_i, w_i, s2))
                continue
            s2q, w2q = ivec(s2), ivec(w2)
            got = measure(row["reach"], s2q, w2q, ks)
            if got is None or not qclose(got, goal):
                res.violation("%s:target-missed(%s)" % (clause, row["reach"]["o"]),
                              dict(ctx, result=[float(x) for x in s2], result_weights=[float(x) for x in w2],
                                   measured=fl(got), wanted=fl(goal)),
                              "%s(%s) on samples %s weights %s: %s of the result is %s, wanted %s" % (
                                  clause, tf, s_i, w_i, row["reach"]["o"], fl(got), fl(goal)))
            for kref in row["keep"]:
                before = look(obs, kref)
                if undef(before):
                    continue
                g2 = measure(kref, s2q, w2q, ks)
                if g2 is None or not qclose(g2, before):
                    res.violation("%s:%s-not-kept" % (clause, kref["o"]),
                                  dict(ctx, result=[float(x) for x in s2], result_weights=[float(x) for x in w2],
                                       measured=fl(g2), before=before),
                                  "%s(%s) on samples %s weights %s: %s was %s/%s, is %s afterwards" % (
                                      clause, tf, s_i, w_i, kref["o"], before[0], before[1], fl(g2)))
            if len(res.samples) < 3 and fn == "impose_variance" and nontriv and n >= 3 and not any(x.get("clause") == fn for x in res.samples):
                res.samples.append({"clause": fn, "target": t, "samples": s_i, "weights": w_i, "result": [float(x) for x in s2],
                                    "spec": {"var": t, "mean_kept": obs["mean"]}})


# ------------------------------------------------------------------------------------------ definitions
def kw_k(k):
    return k[0] if k[0] == k[1] else (k[0], k[1])


def replay_defs_state(mods, hdr, st, idx, res):
    mm, md, np = mods
    ks, fns, sel_tab = hdr["ks"], hdr["fns"], hdr["selections"]
    s_i = [v[0] for v in st["s"]]
    w_i = [v[0] for v in st["w"]]
    n = len(s_i)
    obs = st["obs"]
    sF, wF = (s_i, 1), (w_i, 1)

    # calibration of the instruments on the integer input (machinery check, not a verdict on mystic)
    for ref in hdr["_refs"]:
        e = look(obs, ref)
        m = measure(ref, sF, wF, ks)
        if (m is None) != undef(e) or (m is not None and m[0] * e[1] != e[0] * m[1]):
            raise RuntimeError("instrument %s disagrees with TLC on %s %s: %s vs %s" % (ref, s_i, w_i, m, e))

    allones = all(x == 1 for x in w_i)
    nontriv = obs["var"][0] != 0
    fdict = {name: {int(k): v for k, v in tab.items()} for name, tab in fns.items()} if "_fd" not in hdr else hdr["_fd"]
    hdr["_fd"] = fdict
    inf = float("inf")

    variants = [("list", list(s_i), list(w_i)), ("ndarray", np.array(s_i, dtype=float), np.array(w_i, dtype=float))]
    if idx % 2:
        variants[0] = ("floatlist", [float(x) for x in s_i], [float(x) for x in w_i])
        variants[1] = ("intarray", np.array(s_i), np.array(w_i))
    calls = []
    for vname, S, W in variants:
        wsets = [("weighted", W)] + ([("unweighted", None)] if allones else [])
        for wname, WW in wsets:
            tag = wname + ":" + vname
            A = calls.append
            A(("mean", tag, lambda S=S, WW=WW: mm.mean(S, WW), obs["mean"]))
            A(("variance", tag, lambda S=S, WW=WW: mm.variance(S, WW), obs["var"]))
            A(("std", tag, lambda S=S, WW=WW: mm.std(S, WW) ** 2, obs["var"]))
            A(("moment[0]", tag, lambda S=S, WW=WW: mm.moment(S, WW, order=0), [1, 1]))
            A(("moment[1]", tag, lambda S=S, WW=WW: mm.moment(S, WW, order=1), [0, 1]))
            A(("moment[2]", tag, lambda S=S, WW=WW: mm.moment(S, WW, order=2), obs["var"]))
            A(("moment[3]", tag, lambda S=S, WW=WW: mm.moment(S, WW, order=3), obs["m3"]))
            A(("moment[4]", tag, lambda S=S, WW=WW: mm.moment(S, WW, order=4), obs["m4"]))
            if not undef(obs["median"]):
                A(("median", tag, lambda S=S, WW=WW: mm.median(S, WW), obs["median"]))
                A(("mad", tag, lambda S=S, WW=WW: mm.mad(S, WW), obs["mad"]))
            for j, k in enumerate(ks):
                kk = kw_k(k)
                A(("tmean", tag, lambda S=S, WW=WW, kk=kk: mm.tmean(S, WW, k=kk), obs["tmean"][j]))
                A(("tvariance", tag, lambda S=S, WW=WW, kk=kk: mm.tvariance(S, WW, k=kk), obs["tvar"][j]))
                A(("tstd", tag, lambda S=S, WW=WW, kk=kk: mm.tstd(S, WW, k=kk) ** 2, obs["tvar"][j]))
                A(("tmean[clip]", tag, lambda S=S, WW=WW, kk=kk: mm.tmean(S, WW, k=kk, clip=True), obs["wmean"][j]))
                A(("tvariance[clip]", tag, lambda S=S, WW=WW, kk=kk: mm.tvariance(S, WW, k=kk, clip=True), obs["wvar"][j]))
            for fi, (name, tab) in enumerate(sorted(fdict.items())):
                f = tab.__getitem__
                if (idx + fi) % 2:          # points as 1-tuples, the way product measures pass them
                    P = [(int(x),) for x in s_i]
                    f = (lambda tab: lambda p: tab[p[0]])(tab)
                else:
                    P = [int(x) for x in s_i] if vname != "ndarray" else S
                    f = (lambda tab: lambda x: tab[int(x)])(tab)
                A(("expectation", tag, lambda f=f, P=P, WW=WW: mm.expectation(f, P, WW), obs["exp"][name]))
                A(("_expected_moment[2]", tag, lambda f=f, P=P, WW=WW: mm._expected_moment(f, P, WW, order=2), obs["expvar"][name]))
                A(("expected_variance", tag, lambda f=f, P=P, WW=WW: mm.expected_variance(f, P, WW), obs["expvar"][name]))
                A(("expected_std", tag, lambda f=f, P=P, WW=WW: mm.expected_std(f, P, WW) ** 2, obs["expvar"][name]))
                A(("ess_minimum", tag, lambda f=f, P=P, WW=WW: mm.ess_minimum(f, P, WW), [obs["essmin"][name], 1]))
                A(("ess_maximum", tag, lambda f=f, P=P, WW=WW: mm.ess_maximum(f, P, WW), [obs["essmax"][name], 1]))
                A(("ess_ptp", tag, lambda f=f, P=P, WW=WW: mm.ess_ptp(f, P, WW), [obs["essptp"][name], 1]))
        tag = "weighted:" + vname
        A = calls.append
        A(("spread", tag, lambda S=S: mm.spread(S), obs["spread"]))
        nm = obs["norm"]
        for vec, pre in ((S, "s"), (W, "w")):
            A(("Lnorm[1]", tag, lambda vec=vec: md.Lnorm(vec, 1), nm[pre + "1"]))
            A(("Lnorm[2]", tag, lambda vec=vec: md.Lnorm(vec, 2) ** 2, nm[pre + "2sq"]))
            A(("Lnorm[inf]", tag, lambda vec=vec: md.Lnorm(vec, inf), nm[pre + "inf"]))
            A(("Lnorm[0]", tag, lambda vec=vec: md.Lnorm(vec, 0), nm[pre + "0"]))
        d = obs["dist"]
        X2, Y2 = [list(S)], [list(W)]        # one point each, as rows: the documented pair=False, axis=0 usage
        for how, kwx, sel in (("pair", dict(pair=True), lambda r: r), ("matrix", dict(pair=False, axis=0), lambda r: r[0][0])):
            X, Y = (S, W) if how == "pair" else (X2, Y2)
            t2 = tag + ":" + how
            A(("chebyshev", t2, lambda X=X, Y=Y, kwx=kwx, sel=sel: sel(md.chebyshev(X, Y, **kwx)), d["cheb"]))
            A(("hamming", t2, lambda X=X, Y=Y, kwx=kwx, sel=sel: sel(md.hamming(X, Y, **kwx)), d["hamming"]))
            A(("manhattan", t2, lambda X=X, Y=Y, kwx=kwx, sel=sel: sel(md.manhattan(X, Y, **kwx)), d["manh"]))
            A(("euclidean", t2, lambda X=X, Y=Y, kwx=kwx, sel=sel: sel(md.euclidean(X, Y, **kwx)) ** 2, d["euclsq"]))
            A(("minkowski[3]", t2, lambda X=X, Y=Y, kwx=kwx, sel=sel: sel(md.minkowski(X, Y, **kwx)) ** 3, d["mink3cube"]))
            A(("minkowski[1]", t2, lambda X=X, Y=Y, kwx=kwx, sel=sel: sel(md.minkowski(X, Y, p=1, **kwx)), d["manh"]))
            A(("minkowski[2]", t2, lambda X=X, Y=Y, kwx=kwx, sel=sel: sel(md.minkowski(X, Y, p=2, **kwx)) ** 2, d["euclsq"]))
            A(("minkowski[inf]", t2, lambda X=X, Y=Y, kwx=kwx, sel=sel: sel(md.minkowski(X, Y, p=inf, **kwx)), d["cheb"]))
    # TRANSLATION (Moments.tla: the mean moves with the samples, central moments do not -- ShiftLaw): every third state is
    # also asked for its moments on the same samples moved by +-2^22.  The definitions as written (deviations from the
    # mean) are accurate to ~1e-9 relative there; a one-pass formula E[x^2] - E[x]^2 is off by eps*(mean/std)^2 ~ 1e-4.
    # Judged at 1e-6 relative (fixed, stated): this is the one place where C18 looks at conditioning.
    shifted = []
    if idx % 3 == 0 and nontriv:
        c = (1 << 22) if idx % 2 == 0 else -(1 << 22)
        Sc = [float(x + c) for x in s_i] if idx % 4 < 2 else np.array([x + c for x in s_i], dtype=float)
        Wc = [float(x) for x in w_i]
        mean_c = [obs["mean"][0] + c * obs["mean"][1], obs["mean"][1]]
        shifted = [("mean", lambda: mm.mean(Sc, Wc), mean_c), ("variance", lambda: mm.variance(Sc, Wc), obs["var"]),
                   ("std", lambda: mm.std(Sc, Wc) ** 2, obs["var"]), ("moment[2]", lambda: mm.moment(Sc, Wc, order=2), obs["var"]),
                   ("moment[3]", lambda: mm.moment(Sc, Wc, order=3), obs["m3"]),
                   ("expected_variance", lambda: mm.expected_variance(lambda x: x[0], [[v] for v in Sc], Wc), obs["var"])]
        for fn, thunk, exp in shifted:
            try:
                g = float(thunk())
            except Exception as ex:
                res.violation("%s:raises-%s[translated]" % (fn, type(ex).__name__),
                              {"fn": fn, "samples": s_i, "shift": c, "weights": w_i, "error": repr(ex)[:300]},
                              "%s on samples %s + %d raised %r" % (fn, s_i, c, ex))
                continue
            e = exp[0] / exp[1]
            if not (math.isfinite(g) and abs(g - e) <= 1e-6 * max(abs(e), 1e-300)):
                res.violation("%s:wrong-value[translated]" % fn,
                              {"fn": fn, "samples": s_i, "shift": c, "weights": w_i, "expected": exp, "got": repr(g)},
                              "%s on samples %s + %d weights %s: spec %s/%s (translation law), mystic %r" % (fn, s_i, c, w_i, exp[0], exp[1], g))
    for fn, tag, thunk, exp in calls:
        try:
            got = thunk()
        except Exception as ex:
            res.violation("%s:raises-%s[%s]" % (fn, type(ex).__name__, tag.split(":")[0]),
                          {"fn": fn, "variant": tag, "samples": s_i, "weights": w_i, "error": repr(ex)[:300]},
                          "%s(%s, %s) [%s] raised %r" % (fn, s_i, w_i, tag, ex))
            continue
        if not close(got, exp):
            res.violation("%s:wrong-value[%s]" % (fn, tag.split(":")[0]),
                          {"fn": fn, "variant": tag, "samples": s_i, "weights": w_i, "expected": exp, "got": repr(got)},
                          "%s on samples %s weights %s [%s]: spec %s/%s, mystic %r" % (fn, s_i, w_i, tag, exp[0], exp[1], got))
    # support / support_index: exact index sets
    supp = sorted(i - 1 for i in obs["support"])
    for vname, S, W in variants:
        try:
            gi = [int(i) for i in mm.support_index(W)]
            gs = [float(x) for x in mm.support(S, W)]
        except Exception as ex:
            res.violation("support:raises-%s" % type(ex).__name__, {"samples": s_i, "weights": w_i, "error": repr(ex)}, "support raised %r" % ex)
            continue
        if gi != supp or gs != [float(s_i[i]) for i in supp]:
            res.violation("support:wrong-value", {"samples": s_i, "weights": w_i, "expected_index": supp, "got": gi},
                          "support_index(%s): spec %s, mystic %s" % (w_i, supp, gi))
    res.case("definitions", nontriv)
    if nontriv and n >= 3 and not any(x.get("clause") == "definitions" for x in res.samples):
        res.samples.append({"clause": "definitions", "samples": s_i, "weights": w_i,
                            "spec": {k: obs[k] for k in ("mean", "var", "m3", "spread", "median", "tmean", "exp", "essmin", "dist")}})

    # ---------------------------------------------------------------- single-call post-conditions
    vname, S, W = variants[idx % 2]
    Wcall = None if (allones and idx % 3 == 0) else W
    replay_postconditions(mm, hdr, obs, S, W, Wcall, vname, s_i, w_i, nontriv, res)

    # ---------------------------------------------------------------- support surgery
    sels = sel_tab[n - 1]
    mean0, total0 = obs["mean"], obs["total"]
    neg = idx % 2 == 1                                   # every other state: python negative indices
    for kind, okset in (("support", set(st["supp_ok"])), ("unweighted", set(st["unw_ok"])), ("collapse", None)):
        f = getattr(mm, "impose_" + kind)
        for j, sel in enumerate(sels[kind], 1):
            if okset is not None and j not in okset:
                continue                                 # nothing would remain: not defined
            zero = set(i - 1 for i in sel["zero"])
            if kind == "collapse":
                arg = set((p[0] - 1 - (n if neg else 0), p[1] - 1) for p in sel["arg"])
                simple = sel["simple"]
            else:
                arg = [i - 1 - (n if neg and (i + j) % 2 else 0) for i in sel["arg"]]
                simple = True
            clause = "impose_" + kind + ("" if simple else "[2-cycle]" if sel.get("cyclic") else "[chain]")
            res.case(clause, any(w_i[i] for i in zero))
            ctx = {"fn": "impose_" + kind, "selection": sorted(arg), "designated": sorted(zero), "samples": s_i, "weights": w_i, "container": vname}
            try:
                s2, w2 = f(arg, S, W)
            except Exception as ex:
                res.violation("%s:raises-%s" % (clause, type(ex).__name__), dict(ctx, error=repr(ex)[:300]),
                              "%s(%s, %s, %s) raised %r" % (clause, sorted(arg), s_i, w_i, ex))
                continue
            if len(s2) != n or len(w2) != n or not finite(s2) or not finite(w2):
                res.violation("%s:returns-nan-where-defined" % clause, dict(ctx, got=[repr(s2), repr(w2)]),
                              "%s(%s, %s, %s) is defined (spec) but mystic returned %r %r" % (clause, sorted(arg), s_i, w_i, s2, w2))
                continue
            s2q, w2q = ivec(s2), ivec(w2)
            out = dict(ctx, result=[float(x) for x in s2], result_weights=[float(x) for x in w2])
            lost = [i for i in zero if w2q[0][i] != 0]
            if lost:
                res.violation("%s:designated-weight-not-zero" % clause, out,
                              "%s(%s, %s, %s): weights at %s should be exactly 0, got %s" % (clause, sorted(arg), s_i, w_i, lost, [float(x) for x in w2]))
            if simple:
                extra = [i for i in range(n) if i not in zero and w_i[i] != 0 and w2q[0][i] == 0]
                if extra:
                    res.violation("%s:undesignated-weight-zeroed" % clause, out,
                                  "%s(%s, %s, %s): weights at %s were not designated but are 0: %s" % (clause, sorted(arg), s_i, w_i, extra, [float(x) for x in w2]))
            tot2, mean2 = (sum(w2q[0]), w2q[1]), i_mean(s2q, w2q)
            if not qclose(tot2, total0):
                res.violation("%s:total-weight-not-kept" % clause, out,
                              "%s(%s, %s, %s): total weight %s -> %s" % (clause, sorted(arg), s_i, w_i, fl(total0), fl(tot2)))
            elif not qclose(mean2, mean0):
                res.violation("%s:mean-not-kept" % clause, out,
                              "%s(%s, %s, %s): weighted mean %s -> %s" % (clause, sorted(arg), s_i, w_i, fl(mean0), fl(mean2)))
            if kind == "collapse" and simple:
                apart = [sorted(p) for p in sel["arg"] if s2q[0][p[0] - 1] != s2q[0][p[1] - 1]]
                if apart:
                    res.violation("impose_collapse:pair-not-at-one-position", out,
                                  "impose_collapse(%s, %s, %s): pairs %s do not share a position: %s" % (sorted(arg), s_i, w_i, apart, [float(x) for x in s2]))
            if len(res.samples) < 3 and kind == "collapse" and simple and len(arg) == 2 and any(w_i[i] for i in zero) and \
                    not any(x.get("clause") == clause for x in res.samples):
                res.samples.append({"clause": clause, "pairs": sorted(arg), "samples": s_i, "weights": w_i,
                                    "result": [[float(x) for x in s2], [float(x) for x in w2]],
                                    "spec": {"zero": sorted(zero), "total_kept": obs["total"], "mean_kept": obs["mean"]}})
    # ---------------------------------------------------------------- impose_unweighted(nullable=False)
    # where something remains the flag must change nothing; where nothing remains (spec: NeedsRescue) the
    # non-designated positions share the total equally (spec: RescueWeights), total and mean kept
    f = mm.impose_unweighted
    rescue = {int(jr[0]): jr[1] for jr in st.get("unw_rescue", [])}
    okj = set(st["unw_ok"])
    for j, sel in enumerate(sels["unweighted"], 1):
        zero = set(i - 1 for i in sel["zero"])
        arg = [i - 1 for i in sel["arg"]]
        ctx = {"fn": "impose_unweighted", "nullable": False, "selection": sorted(arg), "samples": s_i, "weights": w_i, "container": vname}
        if j in okj:
            if (idx + j) % 4:
                continue                                 # a quarter of the ordinary selections (same code path)
            clause = "impose_unweighted[nullable=False,remaining]"
            res.case(clause, any(w_i[i] for i in zero))
            try:
                a1, b1 = f(arg, S, W)
                a2, b2 = f(arg, S, W, nullable=False)
            except Exception as ex:
                res.violation("%s:raises-%s" % (clause, type(ex).__name__), dict(ctx, error=repr(ex)[:300]),
                              "%s(%s, %s, %s) raised %r" % (clause, sorted(arg), s_i, w_i, ex))
                continue
            r1 = [[float(x) for x in a1], [float(x) for x in b1]]
            r2 = [[float(x) for x in a2], [float(x) for x in b2]]
            if r1 != r2:
                res.violation("%s:differs-from-nullable" % clause, dict(ctx, nullable_true=r1, nullable_false=r2),
                              "impose_unweighted(%s, %s, %s): nullable=False changed the result although weight remains: %s vs %s" % (
                                  sorted(arg), s_i, w_i, r1, r2))
        elif j in rescue:
            clause = "impose_unweighted[nullable=False,rescue]"
            res.case(clause, True)
            try:
                s2, w2 = f(arg, S, W, nullable=False)
            except Exception as ex:
                res.violation("%s:raises-%s" % (clause, type(ex).__name__), dict(ctx, error=repr(ex)[:300]),
                              "%s(%s, %s, %s) raised %r" % (clause, sorted(arg), s_i, w_i, ex))
                continue
            if len(s2) != n or len(w2) != n or not finite(s2) or not finite(w2):
                res.violation("%s:returns-nan-where-defined" % clause, dict(ctx, got=[repr(s2), repr(w2)]),
                              "%s(%s, %s, %s) is defined (spec) but mystic returned %r %r" % (clause, sorted(arg), s_i, w_i, s2, w2))
                continue
            s2q, w2q = ivec(s2), ivec(w2)
            want = [float(q[0]) / float(q[1]) for q in rescue[j]]
            gotw = [float(x) for x in w2]
            out = dict(ctx, result=[float(x) for x in s2], result_weights=gotw, spec_weights=want)
            if any(abs(g - w) > 1e-12 + 1e-9 * abs(w) for g, w in zip(gotw, want)):
                res.violation("%s:weights" % clause, out,
                              "impose_unweighted(%s, %s, %s, nullable=False): weights %s, specification %s" % (
                                  sorted(arg), s_i, w_i, gotw, want))
                continue
            tot2, mean2 = (sum(w2q[0]), w2q[1]), i_mean(s2q, w2q)
            if not qclose(tot2, total0):
                res.violation("%s:total-weight-not-kept" % clause, out,
                              "%s(%s, %s, %s): total weight %s -> %s" % (clause, sorted(arg), s_i, w_i, fl(total0), fl(tot2)))
            elif not qclose(mean2, mean0):
                res.violation("%s:mean-not-kept" % clause, out,
                              "%s(%s, %s, %s): weighted mean %s -> %s" % (clause, sorted(arg), s_i, w_i, fl(mean0), fl(mean2)))
    res.traces += 1


# ------------------------------------------------------------------------------------------ sequences
def replay_seq_state(mods, hdr, st, idx, res):
    mm, md, np = mods
    hist = st["hist"]
    if not hist:
        return
    # the emitted state is the spec's state AFTER the calls; the input is recovered from the history's
    # first state: TLC emits s, w of the reached state, so the initial state travels in `init`
    s0, w0 = st["init"]
    n = len(s0)
    sels = hdr["selections"][n - 1]
    if idx % 2:
        S, W = np.array(s0, dtype=float), np.array(w0, dtype=float)
    else:
        S, W = [float(x) for x in s0], [float(x) for x in w0]
    names = []
    try:
        for c in hist:
            fn, t = c["fn"], c["t"][0] / c["t"][1]
            names.append(fn)
            if fn == "impose_mean":
                S = mm.impose_mean(t, S, W)
            elif fn == "impose_variance":
                S = mm.impose_variance(t, S, W)
            elif fn == "impose_spread":
                S = mm.impose_spread(t, S, W)
            elif fn == "normalize":
                W = mm.normalize(W, t) if idx % 3 else mm.impose_sum(t, W)
            else:
                kind = fn[len("impose_"):]
                sel = sels[kind][c["sel"] - 1]
                arg = set((p[0] - 1, p[1] - 1) for p in sel["arg"]) if kind == "collapse" else [i - 1 for i in sel["arg"]]
                S, W = getattr(mm, fn)(arg, S, W)
    except Exception as ex:
        res.case("sequence", len(hist) == 2)
        res.violation("sequence[%s]:raises-%s" % (">".join(names), type(ex).__name__),
                      {"init": [s0, w0], "hist": hist, "error": repr(ex)[:300]}, "%s on %s %s raised %r" % (hist, s0, w0, ex))
        return
    res.case("sequence[%s]" % ">".join(x[len("impose_"):] if x.startswith("impose_") else x for x in names), len(hist) == 2)
    res.traces += 1
    ctx = {"init": [s0, w0], "hist": hist, "result": [[float(x) for x in S], [float(x) for x in W]], "spec_state": st["light"], "det": st["det"]}
    if not finite(S) or not finite(W):
        res.violation("sequence[%s]:returns-nan-where-defined" % ">".join(names), ctx, "%s on %s %s: every call is defined (spec), mystic returned %r" % (names, s0, w0, S))
        return
    sq, wq = ivec(S), ivec(W)
    light = st["light"]
    for name in st["det"]:
        if name == "zeros":
            got = sorted(i + 1 for i in range(n) if wq[0][i] == 0)
            ok = got == sorted(light["zeros"])
        else:
            got = measure({"o": name, "j": 0}, sq, wq, None)
            ok = qclose(got, light[name])
        if not ok:
            res.violation("sequence[%s]:%s" % (">".join(names), name), dict(ctx, observable=name, measured=got if name == "zeros" else fl(got)),
                          "after %s on samples %s weights %s: %s is %s, the spec fixes it to %s" % (
                              [(c["fn"], c["t"], c["sel"]) for c in hist], s0, w0, name,
                              got if name == "zeros" else fl(got), light[name]))
    if len(hist) == 2 and len(res.samples) < 1 and names[0] != names[1] and names[1] == "impose_mean":
        res.samples.append({"clause": "sequence", "init": [s0, w0], "calls": hist, "spec_after": light, "det": st["det"],
                            "result": ctx["result"]})


# ------------------------------------------------------------------------------------------ jobs
def refs_of(hdr):
    seen, out = set(), []
    for row in hdr["ops"]:
        for r in [row["reach"]] + list(row["keep"]):
            k = (r["o"], r["j"])
            if k not in seen:
                seen.add(k)
                out.append(r)
    return out


def run_job(job, only=None):
    """one TLC shard + its replay; runs in a forked worker (inherits in-memory mutants of mystic).
    only: predicate on emitted states (used by --replay)"""
    kind, cfg, nsh, sh = job
    import numpy as np
    import warnings
    warnings.simplefilter("ignore")
    np.seterr(all="ignore")
    import mystic.math.measures as mm
    import mystic.math.distance as md
    res = Res()
    if job in CACHE:
        printed, res.tlc = CACHE[job]
    else:
        r = run_tlc(module_of(cfg), cfg=cfg, workers=1, env={"NSHARDS": nsh, "SHARD": sh}, timeout=3400, heap="3g")
        res.tlc = {"cfg": cfg, "distinct": r.distinct, "generated": r.generated, "depth": r.depth, "wall_s": r.wall_s,
                   "violated": r.violated, "out": r.out[-3000:] if r.violated else ""}
        printed = r.printed
        if kind == "tlc-only":
            return printed, res.tlc
    if res.tlc.get("violated"):
        res.spec_violated = res.tlc["violated"]
    if kind in ("facts", "statsfacts"):   # design invariants only (one call deep, incl. the trimming / median facts): nothing to replay
        return res
    if kind in ("stats", "dist"):
        return run_stats_job(kind, job, printed, res, only)
    if not printed or not isinstance(printed[0], dict) or "ops" not in printed[0]:
        raise RuntimeError("TLC output of %s has no header" % (job,))
    hdr = printed[0]
    hdr["_refs"] = refs_of(hdr)
    states = printed[1:]
    if any(not isinstance(x, dict) for x in states):
        raise RuntimeError("unparsed TLC line in %s" % (job,))
    if only is not None:
        states = [x for x in states if only(x)]
    mods = (mm, md, np)
    if kind == "defs":
        for idx, st in enumerate(states):
            if CORRUPT["on"] and idx == 5:
                st = dict(st, obs=dict(st["obs"], exp=dict(st["obs"]["exp"], sq=[st["obs"]["exp"]["sq"][0] + st["obs"]["exp"]["sq"][1], st["obs"]["exp"]["sq"][1]])))
            replay_defs_state(mods, hdr, st, idx + sh, res)
    else:
        # initial state of a history: the emitted hist-free state with the same shard-local id.  States are
        # emitted breadth first; a reached state carries no pointer to its origin, so the spec emits
        # `init` itself (see Emit) -- nothing to reconstruct here.
        for idx, st in enumerate(states):
            if CORRUPT["on"] and st["hist"] and "mean" in st["det"] and idx % 7 == 0:
                st = dict(st, light=dict(st["light"], mean=[st["light"]["mean"][0] + st["light"]["mean"][1], st["light"]["mean"][1]]))
            replay_seq_state(mods, hdr, st, idx + sh, res)
    return res


class Helpers(object):
    """what harness/c18_stats.py borrows from this module"""


def helpers():
    H = Helpers()
    for name in ("close", "qclose", "ivec", "finite", "undef", "fl", "look", "measure", "kw_k", "replay_postconditions"):
        setattr(H, name, globals()[name])
    return H


def run_stats_job(kind, job, printed, res, only=None):
    """replay of the Stats / StatsDist emissions (second and third part of the specification)"""
    import numpy as np
    import mystic.math.measures as mm
    import mystic.math.distance as md
    key = "stats" if kind == "stats" else "dist"
    hdrs = [x for x in printed if isinstance(x, dict) and x.get(key) is True]
    if not hdrs:
        raise RuntimeError("TLC output of %s has no %s header" % (job, key))
    hdr = hdrs[0]
    tabs = [x for x in printed if isinstance(x, dict) and x.get("normtable") is True]
    hdr["norm"] = tabs[0]["norm"] if tabs else []         # the normalisation case table (shard 0 only)
    states = [x for x in printed if isinstance(x, dict) and "obs" in x]
    if any(not isinstance(x, dict) for x in printed):
        raise RuntimeError("unparsed TLC line in %s" % (job,))
    if only is not None:
        states = [x for x in states if only(x)]
    H = helpers()
    mods = (mm, md, np)
    c18_stats.CORRUPT["on"] = CORRUPT.get("stats", False)
    sh = job[3]
    if kind == "stats":
        hdr["_refs"] = refs_of(hdr)
        for idx, st in enumerate(states):
            c18_stats.replay_stats_state(H, mods, hdr, st, idx + sh, res)
        if only is None:
            c18_stats.replay_norm_cases(H, mods, hdr, res)
    else:
        for idx, st in enumerate(states):
            c18_stats.replay_dist_state(H, mods, hdr, st, idx + sh, res)
    return res


def mix(s, w):
    """the shard hash MixTo of Moments.tla (only decides which TLC process emits a state)"""
    h = 0
    for a_, b_ in zip(s, w):
        h = (h * 3 + a_ + 7 * b_ + 40) % 1000003
    return h


def dist_hash(x, y):
    """the shard hash of StatsDist.tla"""
    h = 0
    for v in [c for p_ in x for c in p_] + [c for p_ in y for c in p_]:
        h = (h * 5 + v + 11) % 1000003
    return h


def do_replay(a):
    """bin/check C18 --replay out/C18/replay_x.json: let TLC re-emit the state of the artefact, replay it on the
    current tree, print what is (still) violated.  exit 1 iff the recorded class reproduces."""
    import json
    art = json.load(open(a.replay))
    d = art["detail"]
    thorough = art.get("tier") == "thorough"
    if "init" in d:
        s, w = d["init"]
        hist = d["hist"]
        jobs = [(("seq", "MC_Moments_seq_quick.cfg", 64, mix(s, w) % 64), lambda x: x["init"] == [s, w] and x["hist"] == hist)]
        what = "init=%s %s hist=%s" % (s, w, hist)
    elif "x" in d and "y" in d:                      # StatsDist: the state is a pair of point sets
        x, y = d["x"], d["y"]
        only = lambda st: st["x"] == x and st["y"] == y
        jobs = [(("dist", "MC_StatsDist_thorough.cfg" if thorough else "MC_StatsDist_quick.cfg", 16, dist_hash(x, y) % 16), only),
                (("dist", "MC_StatsDist_moves_thorough.cfg" if thorough else "MC_StatsDist_moves_quick.cfg", 1, 0), only)]
        what = "x=%s y=%s" % (x, y)
    elif "kind" in d and "zmass" in d:               # the normalisation case table of Stats (emitted by shard 0)
        jobs = [(("stats", "MC_Stats_defs_thorough.cfg" if thorough else "MC_Stats_defs_quick.cfg", 4096, 0), "norm")]
        what = "normalisation case table"
    else:
        s, w = d["samples"], d["weights"]
        cfg = "MC_Moments_defs_len4.cfg" if len(s) == 4 else ("MC_Moments_defs_thorough.cfg" if thorough else "MC_Moments_defs_quick.cfg")
        only = lambda x: [v[0] for v in x["s"]] == s and [v[0] for v in x["w"]] == w
        jobs = [(("defs", cfg, 64, mix(s, w) % 64), only),
                (("stats", cfg.replace("MC_Moments", "MC_Stats"), 64, mix(s, w) % 64), only)]
        what = "samples=%s weights=%s" % (s, w)
    cases, viol = 0, {}
    for job, only in jobs:
        r = run_job(job, only=None if only == "norm" else only)
        cases += r.cases
        for k, v in r.viol.items():
            viol.setdefault(k, v)
    print("replayed %d case(s) of the state %s (%s)" % (cases, what, ", ".join(j[0][1] for j in jobs)))
    for k, (cnt, dets) in sorted(viol.items()):
        print("VIOLATION property=C18 class=%s count=%d" % (k, cnt))
        for det, what_ in dets[:1]:
            print("  " + what_[:600])
    if cases == 0:
        raise RuntimeError("TLC did not emit the state of %s" % a.replay)
    return 1 if art["key"] in viol else 0


def plan(a):
    """jobs in the order of their expected duration (longest first; the pool hands them out one by one)"""
    jobs = []
    if a.tier == "quick":
        nd = 12
        ns, take = 64, 2
        jobs += [("seq", "MC_Moments_seq_quick.cfg", ns, (a.seed * take + i) % ns) for i in range(take)]
        jobs += [("facts", "MC_Moments_facts.cfg", 16, a.seed % 16)]
        jobs += [("stats", "MC_Stats_defs_quick.cfg", 3, i) for i in range(3)]
        jobs += [("defs", "MC_Moments_defs_quick.cfg", nd, i) for i in range(nd)]
        jobs += [("dist", "MC_StatsDist_quick.cfg", 1, 0)]
        jobs += [("statsfacts", "MC_Stats_facts.cfg", 16, a.seed % 16)]
        jobs += [("dist", "MC_StatsDist_moves_quick.cfg", 1, 0)]
    else:
        n4, nd, ns = 64, 16, 64
        jobs += [("defs", "MC_Moments_defs_len4.cfg", n4, i) for i in range(n4)]       # longest jobs first
        jobs += [("seq", "MC_Moments_seq_thorough.cfg", ns, i) for i in range(ns)]
        jobs += [("stats", "MC_Stats_defs_len4.cfg", 32, i) for i in range(32)]
        jobs += [("dist", "MC_StatsDist_thorough.cfg", 16, i) for i in range(16)]
        jobs += [("defs", "MC_Moments_defs_thorough.cfg", nd, i) for i in range(nd)]
        jobs += [("stats", "MC_Stats_defs_thorough.cfg", 16, i) for i in range(16)]
        jobs += [("dist", "MC_StatsDist_moves_thorough.cfg", 8, i) for i in range(8)]
        jobs += [("facts", "MC_Moments_facts.cfg", 8, i) for i in range(8)]
        jobs += [("statsfacts", "MC_Stats_facts.cfg", 8, i) for i in range(8)]
    return jobs


def timed_job(job):
    t0 = time.time()
    r = run_job(job)
    if isinstance(r, Res):
        r.started, r.wall = t0, time.time() - t0
    return r


def pool_map(fn, jobs, nproc):
    import multiprocessing as mp
    ctx = mp.get_context("fork")
    # largest jobs first is not known in advance; chunksize 1 keeps the workers balanced
    with ctx.Pool(processes=max(1, min(nproc, len(jobs)))) as pool:
        return pool.map(fn, jobs, chunksize=1)


RULE = ("TLC enumerates every (samples, weights) with weights over {0..3} (not all zero) and samples of length 1-3 over "
        "{-2,-1,0,1,3} (quick) / length 1-3 over {-3..3} plus length 4 over {-2,-1,0,1,3}, with more targets (thorough), and "
        "emits every definition evaluated on it; "
        "a case = one state x one clause, "
        "where a clause is 'definitions' (all real definition functions on list and ndarray inputs, weights=None too on "
        "all-ones states), one (transform, target) of the post-condition table, one index/pair selection of "
        "impose_support/unweighted/collapse, or one emitted sequence of <= 2 transform calls (sequence class: length 3 "
        "over {-1,0,2} x weights {0,1,3}; quick replays 2 of its 64 shards chosen by the seed, thorough all). Cases are "
        "distinct by construction (TLC emits each state once, each clause is enumerated once per state). Non-trivial: "
        "definitions on a state with non-zero variance; a transform whose target differs from the current value; a "
        "selection that removes non-zero weight; a sequence of two calls. "
        "Second part (Stats.tla): every (samples, weights) of length 1-3 over {-1,0,2} x weights {0..3} (quick) / length 1-3 over "
        "{-3..3} plus length 4 over {-1,0,2} (thorough); clauses 'definitions[stats]' (standard_moment/skewness/kurtosis, "
        "maximum/minimum/ptp, ess_* and support/expectation/expected_variance with tol, mean/moment with tol, norm, weighted_select "
        "with 8 scripted draws x 2 masses, tmean/tvariance/tstd over 7 more trimming entries, trimmed and winsorised), one (transform, "
        "target) of the table over the second trimming catalogue ('{K2}'), one row of the normalisation case table (all weight "
        "vectors of length 1-3 over {-1..3} (quick) / length 1-3 over {-3..3} and length 4 over {-1..3} (thorough); mass as number, 0, zsum/zmass, 'l1'-'l3'; impose_product "
        "zsum). Third part (StatsDist.tla): every pair of point sets (m x k points of dimension d, coordinates {-1,0,2}) for the "
        "shapes in MC_StatsDist (quick: m,k,d <= 2 without 2x2x2; thorough: up to 3 points / 3 dimensions), one case 'distances[mxkxd]' = all metrics as matrix / pairwise / reduced / self / dmin, "
        "minkowski(p), absolute_distance, Lnorm(p, axis), lipschitz_metric, lipschitz_distance(tol, cutoff), infeasibility, "
        "is_feasible; plus the states reached by one move (swap, translate, negate, reverse coordinates) from every pair incl. 2x2x2 "
        "(quick: coordinates {0,2}). Non-trivial there: "
        "non-degenerate variance; two point sets that are not all equal")


def new_check(a):
    return Check("C18", "exploration", a.tier, a.seed, rule=RULE)


def explore(ck, a, quiet=False):
    jobs = plan(a)
    t0 = time.time()
    results = pool_map(timed_job, jobs, a.jobs)
    per_cfg = {}
    clauses = {}
    exhaustive = True
    for job, r in zip(jobs, results):
        c = per_cfg.setdefault(r.tlc["cfg"], {"distinct": 0, "generated": 0, "depth": 0, "wall_s": 0.0, "shards": 0})
        c["distinct"] += r.tlc["distinct"]
        c["generated"] += r.tlc["generated"]
        c["depth"] = max(c["depth"], r.tlc["depth"] or 0)
        c["wall_s"] += r.tlc["wall_s"]
        c["shards"] += 1
        if r.spec_violated:
            ck.violation("spec:" + r.spec_violated, {"tlc": r.tlc.get("out", "")}, "TLC: design invariant %s violated in Moments (%s)" % (r.spec_violated, r.tlc["cfg"]))
        ck.case(nontrivial=False, n=r.cases - r.nontrivial)
        if r.nontrivial:
            ck.case(nontrivial=True, n=r.nontrivial)
        ck.trace(r.traces)
        for k, (cnt, dets) in sorted(r.viol.items()):
            for det, what in dets:
                ck.violation(k, det, what)
            for _ in range(cnt - len(dets)):
                ck.violation(k, {"more": "same class, see the first replay files"}, "")
        for k, (c_, n_) in r.clauses.items():
            x = clauses.setdefault(k, [0, 0])
            x[0] += c_
            x[1] += n_
    for cfg, c in sorted(per_cfg.items()):
        ck.mc(c, module_of(cfg)[len("math/MC_"):] + "/" + cfg + " (%d shards)" % c["shards"])
    want = {"definitions", "impose_variance", "impose_collapse", "sequence", "definitions[stats]", "normalize[zsum]", "distances"}
    for r in results:
        for s in r.samples:
            if s.get("clause") in want:
                want.discard(s["clause"])
                ck.sample(s, limit=8)
    ck.exhaustive = a.tier == "thorough"
    ck.extra["clauses"] = {k: {"cases": v[0], "nontrivial": v[1]} for k, v in sorted(clauses.items())}
    ck.extra["jobs"] = ["%s %s shard %d/%d: start +%.0fs, %.0fs" % (j[0], j[1], j[3], j[2], r.started - t0, r.wall)
                        for j, r in zip(jobs, results)] if a.tier == "quick" else len(jobs)
    ck.extra["tolerance"] = "abs 1e-12 + rel 1e-9 against the exact rational"
    ck.extra["sequence_shards_replayed"] = "all" if a.tier == "thorough" else "2 of 64 (by seed)"
    ck.assumptions = [
        "TLC and the transcription of the textbook definitions into Moments.tla / Stats.tla / StatsDist.tla (rationals <<num,den>>; "
        "roots compared in squared/cubed form; a squared standard moment is emitted as a list of rational factors)",
        "standardised moments, skewness and kurtosis are judged only for non-degenerate variance; ess_* only where the support "
        "(weights > tol) is not empty; expectation with tol only where some weight exceeds tol; mean/moment with tol= are not judged "
        "for a mean below -tol (the sentence 'any mean <= tol is zero' has two readings there)",
        "weighted_select is judged with the uniform draw supplied by the harness (mystic.tools.random_state replaced by a scripted "
        "source during the call); draws are 0 and multiples of 1/97, never on a cumulative-weight boundary",
        "trimming that cuts everything (lo + hi >= 100): the trimmed forms must return nan (docstring), the winsorised forms are not judged",
        "normalize(mass=0, zsum=True, zmass): the specification reads 'counterbalance' as 'the last member carries minus the sum of the "
        "others' and 'member scaling' as 'the others are the L1-normalised members times zmass'",
        "distance functions are judged on 2-D point arrays (and 1-D points with dmin=2), integer coordinates; the optimizer-based "
        "graphical_distance and the impose_expected_* family are out of scope; is_feasible / infeasibility with cutoff >= 0",
        "the exact measuring instruments of the harness (mean, central moments, spread, total, product, median, MAD, trimmed and "
        "winsorised means/variances on Fractions) are calibrated against TLC's values on every initial state, and are then applied "
        "to the floats mystic returns; a reached/kept observable is compared at abs 1e-12 + rel 1e-9",
        "the unweighted call (weights=None) is by definition the weighted one with all weights 1",
        "weighted median / MAD are specified for equal weights (midpoint convention) and for an odd number of points (lower "
        "weighted median); for an even number of points with unequal weights mystic's own convention is not judged",
        "impose_collapse is fully specified for unambiguous pair sets (nobody both gives and receives, nobody gives twice); for "
        "chains only: pure givers end at weight 0, total weight and weighted mean kept",
        "inputs are small integers; nothing is claimed about numerical accuracy on ill-conditioned data; the optimizer-based "
        "impose_reweighted_* / impose_expectation are out of scope",
    ]
    return results


# ------------------------------------------------------------------------------------------ selftest
def selftest(a):
    import numpy as np
    import mystic.math.measures as mm
    import mystic.math.distance as md
    a.tier = "quick"
    jobs = plan(a)
    # keep the self-test short: 4 definition shards + 2 sequence shards, TLC once
    jobs = [("defs", "MC_Moments_defs_quick.cfg", 64, i) for i in range(0, 64, 4)] + [j for j in jobs if j[0] == "seq"][:2]
    # second / third part: one Stats shard (shard 0 carries the normalisation table) and the StatsDist run with moves
    jobs += [("stats", "MC_Stats_defs_quick.cfg", 6, 0), ("stats", "MC_Stats_defs_quick.cfg", 6, 3), ("dist", "MC_StatsDist_moves_quick.cfg", 2, 0)]
    t0 = time.time()
    outs = pool_map(run_job, [("tlc-only",) + j[1:] for j in jobs], a.jobs)
    for j, o in zip(jobs, outs):
        CACHE[j] = o
    print("selftest: TLC emitted %d states in %.0fs" % (sum(len(o[0]) - 1 for o in outs), time.time() - t0))

    def run():
        results = pool_map(run_job, jobs, a.jobs)
        viol = {}
        for r in results:
            for k, (cnt, _) in r.viol.items():
                viol[k] = viol.get(k, 0) + cnt
        return viol

    base = run()
    if base:
        print("selftest: note -- the unmutated tree already has violations: %s" % sorted(base)[:8])
    orig = {k: getattr(mm, k) for k in dir(mm) if not k.startswith("__")}
    orig_md = {k: getattr(md, k) for k in dir(md) if not k.startswith("__")}
    orig_L = md.Lnorm

    def m_sample_variance():
        def moment(samples, weights=None, order=1, tol=0):
            v = orig["moment"](samples, weights, order, tol)
            n = len(samples)
            return v * n / (n - 1.0) if (order == 2 and n > 1) else v
        mm.moment = moment

    def m_mean_unweighted_shift():
        def impose_mean(m, samples, weights=None):
            samples = np.asarray(list(samples))
            return list(samples + (m - mm.mean(samples)))
        mm.impose_mean = impose_mean

    def m_collapse_loses_weight():
        def impose_collapse(pairs, samples, weights):
            samples, weights = list(samples), list(weights)
            m = mm.mean(samples, weights)
            from mystic.tools import connected
            pairs = connected(zip(*tuple(tuple(len(weights) + i if i < 0 else i for i in j) for j in zip(*pairs))))
            for i, j in pairs.items():
                for k in j:
                    weights[k] = type(weights[i])(0.0)
                    samples[k] = samples[i]
            return mm.impose_mean(m, samples, weights), weights
        mm.impose_collapse = impose_collapse

    def m_ess_min_all_points():
        mm.ess_minimum = lambda f, samples, weights=None, tol=0.: mm.minimum(f, samples)

    def m_lnorm_inf_sum():
        def Lnorm(weights, p=1, axis=None):
            if p == float("inf"):
                return np.sum(np.abs(np.asarray(weights, dtype=float)), axis=axis)
            return orig_L(weights, p, axis)
        md.Lnorm = Lnorm

    def m_spread_moves_mean():
        def impose_spread(r, samples, weights=None):
            samples = np.asarray(list(samples))
            sr = mm.spread(samples)
            if not sr:
                return [np.nan] * len(samples)
            return list(samples * (float(r) / sr))
        mm.impose_spread = impose_spread

    def m_expectation_ignores_weights():
        mm.expectation = lambda f, samples, weights=None, tol=0.0: mm.mean([f(x) for x in samples])

    def m_support_not_renormalised():
        def impose_support(index, samples, weights):
            index = set(len(weights) + i if i < 0 else i for i in index)
            m = mm.mean(samples, weights)
            weights = [w if i in index else 0. for (i, w) in enumerate(weights)]
            return mm.impose_mean(m, samples, weights), weights
        mm.impose_support = impose_support

    def m_variance_linear_scale():
        def impose_variance(v, samples, weights=None):
            m = mm.mean(samples, weights)
            samples = np.asarray(list(samples))
            sv = mm.variance(samples, weights)
            if not sv:
                return [np.nan] * len(samples)
            return mm.impose_mean(m, samples * (float(v) / sv), weights)
        mm.impose_variance = impose_variance

    def m_hamming_counts_equal():
        md.hamming = lambda x, xp=None, pair=False, dmin=0, axis=None: (~md.absolute_distance(x, xp, pair=pair, dmin=dmin).astype(bool)).sum(axis=axis).astype(float)

    def m_median_upper():
        def median(samples, weights=None):
            x, w = mm._sort(samples, weights)
            s = sum(w)
            return float(x[s / 2. - np.cumsum(w) < 0][0])
        mm.median = median

    def m_tmean_rounds_cut():
        o = orig["_k"]
        mm._k = lambda weights, k=0, clip=False, norm=False, eps=15: o(weights, k, clip, norm, 0)

    def m_unweighted_keeps_weight_on_first():
        def impose_unweighted(index, samples, weights, nullable=True):
            index = set(len(weights) + i if i < 0 else i for i in index) - {0}
            return orig["impose_unweighted"](sorted(index), samples, weights, nullable)
        mm.impose_unweighted = impose_unweighted

    def m_unweighted_rescue_tests_original_total():
        # seeded change C18a: the nullable=False rescue tests the ORIGINAL total instead of the remaining weight
        def impose_unweighted(index, samples, weights, nullable=True):
            if not nullable and sum(weights):
                nullable = True
            return orig["impose_unweighted"](index, samples, weights, nullable)
        mm.impose_unweighted = impose_unweighted

    def m_corrupt_expected():
        CORRUPT["on"] = True

    # ---- mutants for the second / third part (Stats.tla, StatsDist.tla)
    def m_standard_moment_variance_power():
        mm.standard_moment = lambda samples, weights=None, order=1, tol=0: \
            1.0 if order == 2 else orig["moment"](samples, weights, order, tol) / orig["variance"](samples, weights) ** order

    def m_kurtosis_excess():
        mm.kurtosis = lambda samples, weights=None: orig["standard_moment"](samples, weights, order=4) - 3.0

    def m_support_ignores_tol():
        mm.support = lambda samples, weights, tol=0: orig["support"](samples, weights, 0)

    def m_select_strict():
        def weighted_select(samples, weights, mass=1.0):
            from mystic.tools import random_state
            rand = random_state().random
            wts = np.cumsum(mm.normalize(weights, mass))
            wts[-1] = mass
            w = mass * rand()
            return samples[len(wts[wts < w])]
        mm.weighted_select = weighted_select

    def m_tstd_ignores_clip():
        mm.tstd = lambda samples, weights=None, k=0, clip=False: np.sqrt(orig["tvariance"](samples, weights, k, False))

    def m_impose_mad_moves_median():
        def impose_mad(s, samples, weights=None):
            samples = np.asarray(list(samples))
            _mad = mm.mad(samples, weights)
            if not _mad:
                return [np.nan] * len(samples)
            return list(samples * (float(s) / _mad))
        mm.impose_mad = impose_mad

    def m_zsum_ignores_zmass():
        mm.normalize = lambda weights, mass='l2', zsum=False, zmass=1.0: orig["normalize"](weights, mass, zsum, 1.0)

    def m_normalize_abs_sum():
        def normalize(weights, mass='l2', zsum=False, zmass=1.0):
            if isinstance(mass, str) or not float(mass):
                return orig["normalize"](weights, mass, zsum, zmass)
            w = np.asarray(list(weights), dtype=float)
            return list(mass * w / np.sum(np.abs(w)))          # total of the absolute values instead of the total
        mm.normalize = normalize

    def m_lipschitz_metric_ignores_L():
        md.lipschitz_metric = lambda L, x, xp=None: orig_md["lipschitz_metric"](np.ones(len(L)), x, xp)

    def m_infeasibility_strict():
        def infeasibility(distance, cutoff=0.0):
            distance = np.array(distance)
            if cutoff is not None:
                if len(distance.shape) == 0:
                    return 0.0 if distance < cutoff else distance
                distance[distance < cutoff] = 0.0
            return distance
        md.infeasibility = infeasibility

    def m_lnorm_axis_swapped():
        md.Lnorm = lambda weights, p=1, axis=None: orig_L(weights, p, None if axis is None else 1 - axis)

    def m_chebyshev_pairwise_is_matrix():
        md.chebyshev = lambda x, xp=None, pair=False, dmin=0, axis=None: orig_md["chebyshev"](x, xp, pair=False, dmin=dmin, axis=0 if pair else axis)

    def m_corrupt_expected_stats():
        CORRUPT["stats"] = True

    mutants = [("variance uses the sample (n-1) form instead of the population form", m_sample_variance),
               ("impose_mean ignores the weights", m_mean_unweighted_shift),
               ("impose_collapse drops the collapsed weight", m_collapse_loses_weight),
               ("ess_minimum also looks at zero-weight points", m_ess_min_all_points),
               ("Lnorm p=inf returns the sum", m_lnorm_inf_sum),
               ("impose_spread does not restore the mean", m_spread_moves_mean),
               ("expectation ignores the weights", m_expectation_ignores_weights),
               ("impose_support does not renormalise the total weight", m_support_not_renormalised),
               ("impose_variance scales by v/var instead of sqrt(v/var)", m_variance_linear_scale),
               ("hamming counts equal coordinates", m_hamming_counts_equal),
               ("median returns the upper weighted median", m_median_upper),
               ("_k rounds the trimming cut to whole numbers", m_tmean_rounds_cut),
               ("impose_unweighted never zeroes position 0", m_unweighted_keeps_weight_on_first),
               ("impose_unweighted(nullable=False) rescue tests the original total", m_unweighted_rescue_tests_original_total),
               ("one expected value from TLC corrupted (no mutation of mystic)", m_corrupt_expected),
               ("[stats] standard_moment divides by variance^order instead of std^order", m_standard_moment_variance_power),
               ("[stats] kurtosis returns the excess kurtosis", m_kurtosis_excess),
               ("[stats] support ignores tol", m_support_ignores_tol),
               ("[stats] weighted_select compares with < (a leading zero-weight point can be selected)", m_select_strict),
               ("[stats] tstd ignores clip", m_tstd_ignores_clip),
               ("[stats] impose_mad does not restore the median", m_impose_mad_moves_median),
               ("[stats] normalize(zsum) ignores zmass", m_zsum_ignores_zmass),
               ("[stats] normalize(mass) divides by the sum of absolute values", m_normalize_abs_sum),
               ("[dist] lipschitz_metric ignores the Lipschitz constants", m_lipschitz_metric_ignores_L),
               ("[dist] infeasibility keeps a distance equal to the cutoff", m_infeasibility_strict),
               ("[dist] Lnorm takes the norm along the other axis", m_lnorm_axis_swapped),
               ("[dist] chebyshev(pair=True) returns the distance matrix reduction", m_chebyshev_pairwise_is_matrix),
               ("[stats/dist] expected values of the Stats / StatsDist emission corrupted (no mutation of mystic)", m_corrupt_expected_stats)]
    missed = 0
    for name, mut in mutants:
        mut()
        try:
            viol = run()
        except Exception as ex:
            viol = {"mutant-raised:" + type(ex).__name__: 1}
        for k, v in orig.items():
            setattr(mm, k, v)
        for k, v in orig_md.items():
            setattr(md, k, v)
        md.Lnorm = orig_L
        md.hamming = HAMMING
        CORRUPT["on"] = False
        CORRUPT["stats"] = False
        new = {k: v for k, v in viol.items() if v > base.get(k, 0)}
        print("SELFTEST %s: %s (%d violations; %s)" % (name, "caught" if new else "MISSED", sum(new.values()), ", ".join(sorted(new)[:4])))
        missed += 0 if new else 1
    return 1 if missed else 0


HAMMING = None


def main():
    global HAMMING
    a = tier_seed()
    assert_repo()
    import mystic.math.measures  # noqa: F401  (imported before forking so every worker shares it)
    import mystic.math.distance as md
    HAMMING = md.hamming
    if a.selftest:
        return selftest(a)
    if a.replay:
        return do_replay(a)
    ck = new_check(a)
    explore(ck, a)
    return ck.finish()


if __name__ == "__main__":
    main_guard(main)
